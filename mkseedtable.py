#!/usr/bin/env python3
"""Regenerates the seeded-changes table of DESIGN.md section 10.4 from seeded/*/meta.json."""
import json,glob
notes={"C04-a":"C06 (after the `ch_outer_sni_changed` retry variant was added; C04 only exercises first hellos)",
 "C18-a":"C18 (after the stagger invariant was tightened to one released attempt per failure)",
 "C19-a":"C19 (after caller-supplied Host headers were added to the request generator)",
 "C02-b":"C02 (after the `suite_not_offered` substitution with a two-KDF config was added)",
 "C07-b":"C07 (after Write buffers were made scratch copies that are scribbled over, as a relay reusing its buffer does)",
 "C08-b":"C08; C06 too after the `ch_outer_no_tls13` retry variant was added",
 "C10-c":"C10 (after early-cancelled WithTimeout/WithDeadline contexts were added)",
 "C04-c":"C04 (after out-of-order / repeated references were generated at any position of lists of any length)",
 "C16-b":"C16 (after the concurrent-expiry stage was added: same key looked up by 2..16 goroutines right after expiry and a zone change)",
 "C20-c":"C20 (after the scripted failure -> publish -> recovery -> publish prefix was added)",
 "C06-c":"C06 (after a second HelloRetryRequest was allowed in histories; this also exposed the genuine defect fixed in c365989)",
 "C08-c":"C08 (after a wall-clock watchdog was put around the synctest bubble: a spinning read loop freezes virtual time)",
 "C01-d":"C01 (after key sets with a colliding config id under another public name were added); C05 and C09 caught it as it was",
 "C02-d":"C02 (after the `wrong_config_id_sealed` substitution - id of another held key, authenticated through the AAD - was added)",
 "C11-d":"C11 (after configs whose cipher_suites vector is cut inside a suite were added)",
 "C13-d":"C13 (after IPv4-mapped addresses were generated for AAAA and ipv6hint)",
 "C14-d":"C14 (after boundary lengths were added: scheme of 62/63, label of 63/64, name of 253/254)",
 "C16-d":"C16 (after the virtual clock got sub-second offsets and advances)",
 "C01-e":"C01 (after the public-name server got curve preferences of its own, so that a stale-config handshake may go through a HelloRetryRequest)",
 "C02-e":"C02 (after length-consistent structural alterations were added: bytes appended inside the ECH extension, extension added/removed/grown/swapped, suite / session id / compression changed)",
 "C04-e":"C04 (after the type-`inner` outer hello was also sent without TLS 1.3 on offer)",
 "C05-e":"C05 (after mixed-case host names were generated; C03 inner names too)",
 "C06-e":"C06 (after the `blocked` stage was added: the reader is already inside Read when the backend's answer is written)",
 "C07-e":"C07 (after the reads of a second, unrelated accepted connection were interleaved)",
 "C10-e":"C10 (after a HelloRetryRequest round was added to the I/O performed after the context ended)",
 "C11-e":"C11 (after the length-field perturbation with the metamorphic over-read oracle was added)",
 "C13-e":"C13 (after question names in absolute form, with a trailing dot, were generated)",
 "C15-e":"C15 (after one iter.Seq value was ranged over again after an early stop)",
 "C18-e":"C18 (after the behaviour `rejected with retry configs, then succeed/fail/hang on the retry` was added)",
 "C19-e":"C19 (after the request given to RoundTrip was compared before and after the call)",
 "C02-f":"C09 and C01 as they were; C02 after the multi-key control and the `wrong_info_concatenated_configs` substitution were added",
 "C07-f":"C07 (after the HelloRetryRequest mode was added: HRR, then (CCS and) a retried hello followed by more client bytes, under every chunking)",
 "C12-f":"C12 (after the decoder was given a buffer of exactly the message's size, plus the spare-capacity differential and the crafted SvcParams source)",
 "C14-f":"C14 (after service records naming the origin host itself as their target were generated)",
 "C20-f":"C20 (after stored values that already carry the list being published, in any syntactic form, were generated)",
 "C02-g":"C02 (after keys with unparseable configs were inserted into the server's key list for the negative checks)",
 "C05-g":"C05 (after GREASE extensions with an enc the KEM refuses - wrong length, all-zero point - were generated)",
 "C06-g":"C06 (after the retried hello's extensions, including those referenced through ech_outer_extensions, were allowed to differ from the first flight's)",
 "C08-g":"C08 (after the `illegal` stage was added: authentic hellos with rule violations from the C04 generator, no-panic oracle); C04 caught it as it was",
 "C10-g":"C10 (after the peer was allowed not to read while NewConn is blocked: writes without a deadline block; a virtual-time deadlock is reported as 'never returns')",
 "C11-g":"C11 (after lists sized around the 65535-byte limit of the length prefix were added)",
 "C16-g":"C14 as it was; C16 after upstream failures with response codes outside 1..5 (6, 9, 16, 23) were added",
 "C17-g":"C17 (after the Dialer was also driven through Transport.RoundTrip and an empty non-nil ECH list stopped counting as a list)",
 "C18-g":"C18 (after the leak oracle was made prompt: no Dialer goroutine alive at the first instant at which Dial has returned and no attempt is outstanding)",
 "C19-g":"C19 (after explicit port 80 origins, alone and beside the same host's default-port origin, were generated)",
 "C01-h":"C07 as it was (scribbled Write buffers); C01 after the backend-to-client relay got a reused buffer of 1..4096 bytes",
 "C04-h":"C06 as it was (alert bytes compared after an ill-formed retry with a partial backend record pending); C04 itself only drives first hellos",
 "C06-h":"C09 and C01 as they were; C06 after sibling keys under the same config id were added to the server's list",
 "C07-h":"C07 (after the scripted transport could report its end error together with the last bytes, n>0 and err!=nil)",
 "C08-h":"C08 (after the stall sweep let the stalled peer not read either, so that a write without deadline blocks)",
 "C09-h":"C09 (after 'the target's key pair re-issued under another config' was added to the other keys)",
 "C10-h":"C10 (after two earlier connections of the same process whose NewConn timed out were put in front of the case)",
 "C12-h":"C12 (after the framing stage also served bodies without Content-Length: chunked and read-until-close, up to 6 MiB)",
 "C14-h":"C14 (after fully qualified host spellings with a trailing dot were generated)",
 "C16-h":"C16 (after the clock was allowed to advance while an upstream query is in flight; the reference cache advances at the same points)",
 "C18-h":"C18 (after the per-attempt deadline was required to equal Timeout exactly, not merely to stay below it)",
 "C20-h":"C20 (after `success:false` responses without any error detail were added to the failure kinds)",
 "C01-i":"C06 `blocked` stage after the scripted transport let the client answer before the Write that carried the HelloRetryRequest returned; C01 after the front transport's Write returned 300 us late in some cases",
 "C03-i":"C03 (after the caller edited the slice returned by ALPNProtos() and asked again)",
 "C04-i":"C06 as it was (change_cipher_spec between HelloRetryRequest and an ill-formed retry); C04 itself only drives first hellos",
 "C05-i":"C05 (after the no-TLS-1.3 hello with an authentic ECH payload got legacy_version values of 0x0304 and above)",
 "C06-i":"C06 (after the application edited its copy of ALPNProtos() before the retry)",
 "C07-i":"C07 (after the transport was allowed to end inside the retry flight: the bytes received are delivered, then the transport's error)",
 "C08-i":"C09 as it was changed for C09-i; C08 after key lists of two keys in two WithKeys options were added",
 "C09-i":"C09 (after the key list was handed over in two WithKeys options, the first a slice with spare capacity reused by another connection in between)",
 "C11-i":"C11 (after an untouched copy of the same config bytes was parsed again once the caller had edited the first result)",
 "C12-i":"C12 (after the `cnames` stage was added: answers whose CNAME records form chains, forks and cycles through the queried name)",
 "C14-i":"C16 as it was; C14 after Resolve was repeated on a caching resolver (same outcome every time)",
 "C15-i":"C15 (after 16-byte IPv4-mapped addresses were generated)",
 "C17-i":"C19 as it was (Host override); C17 after the Transport mode got a Host header override",
 "C19-i":"C19 (after Dialer.Resolver was set on the Transport's Dialer in half of the cases)",
 "C01-j":"C05 and C01 (after another client's connection was accepted before the first connection's backend had read a byte)",
 "C02-j":"C02 (after public names got mixed case and the key material was snapshotted around NewConn and reused for a second connection)",
 "C03-j":"C03 (after EncodedClientHelloInner was also sent with a session id of its own: refused, or forwarded with ClientHelloOuter's)",
 "C05-j":"C05 (after NewConn got a debug callback that formats its arguments in half of the cases)",
 "C08-j":"C08 (after the `backend` stage was added: ServerHello / HelloRetryRequest look-alikes cut short or lying about their lengths, behind an accepted connection)",
 "C14-j":"C14 (after the `mixed` stage was added: RRsets holding alias and service records side by side resolve the same with and without cache)",
 "C17-j":"C17 (after Dialer.Resolver was set in Transport mode and every target had to be tried when nothing succeeded); C19 caught it as it was",
 "C20-j":"C20 (after a delegated child zone and a parent record of the same fully qualified name, and targets naming another zone's record, were generated)",
 "C01-k":"C02 as it was changed for C02-j; C01 after its public names got mixed case (the key set already serves several connections per case)",
 "C04-k":"C04 (after ech_outer_extensions and encrypted_client_hello extensions with a zero-length body were put into the outer hello)",
 "C05-k":"C05 (after hellos that fill their record to 16384-d bytes were generated)",
 "C10-k":"C10 (after a read deadline armed by the caller long after the context ended had to be reported as a timeout)",
 "C11-k":"C11 (after lists containing an unknown-version entry whose body embeds a valid config were parsed)",
 "C18-k":"C18 (after the Dialer was also instantiated with an interface type)",
 "C19-k":"C19 and C14 (after SvcPriority values from the far end of the 16-bit range were generated)",
 "C20-k":"C20 (after long parameter values made listing pages exceed 16 KiB)"}
rows=["| Seed | Breaks | Change (summary) | Needs to manifest | Caught by (quick tier) |","|---|---|---|---|---|"]
for d in sorted(glob.glob('/verif/seeded/*/meta.json')):
    m=json.load(open(d)); sid=m['seed_id']
    f=lambda x:(x or '').replace('\n',' ').replace('|','/')
    summ,needs=f(m.get('summary')),f(m.get('needs'))
    if len(summ)>200: summ=summ[:197]+'...'
    if len(needs)>200: needs=needs[:197]+'...'
    rows.append(f"| {sid} | {m.get('property','')} | {summ} | {needs} | {notes.get(sid, ', '.join(m.get('caught_by',[])))} |")
n=len(rows)-2
s=open('/verif/DESIGN.md').read()
start=s.index("| Seed | Breaks |"); end=s.index("rounds of sub-agents produced")
end=s.rindex("\n",0,end)+1
s=s[:start]+"\n".join(rows)+"\n\n"+s[end:]
import re
s=re.sub(r"\w+ rounds of sub-agents produced \d+ distinct confirmed changes \(duplicates of an\nearlier idea were dropped\)\. \w+ of them were missed by the version of the\nchecks that existed when they arrived and led to the strengthenings named in\nthe last column; all \d+ are now reported by the quick tier at `VERIF_SEED=1`\.",
 f"Eleven rounds of sub-agents produced {n} distinct confirmed changes (duplicates of an\nearlier idea were dropped). {len(notes)} of them were missed by the version of the\nchecks that existed when they arrived and led to the strengthenings named in\nthe last column; all {n} are now reported by the quick tier at `VERIF_SEED=1`.", s)
open('/verif/DESIGN.md','w').write(s)
print(n, len(notes))
