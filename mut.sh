#!/bin/sh
# usage: mut.sh <name> <python-edit-snippet-file> <prop> ...   (scratch worktree under /tmp, removed afterwards)
# Applies an edit script to a scratch worktree of /repo and runs the quick checks against it.
set -e
name=$1; edit=$2; shift 2
dir=/tmp/mut-$name
git -C /repo worktree remove --force $dir >/dev/null 2>&1 || true
git -C /repo worktree add --detach $dir >/dev/null 2>&1
(cd $dir && python3 $edit)
(cd $dir && git diff --stat | tail -1)
if [ -n "$MUT_BASELINE" ]; then (cd $dir && GOFLAGS=-mod=mod GOPROXY=off go test -vet=off -count=1 ./ ./dns/ 2>&1 | tail -2; cd publish && GOFLAGS=-mod=mod GOPROXY=off go test -vet=off -count=1 ./ 2>&1 | tail -1); fi
for p in "$@"; do
  VERIF_REPO=$dir VERIF_REPLAY_DIR_KEEP=1 /verif/check $p quick 2>&1 | grep -E "VIOLATION|INCONCLUSIVE|evaluations=" | head -3
done
git -C /repo worktree remove --force $dir
