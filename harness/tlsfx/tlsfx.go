// Package tlsfx provides a test CA, leaf certificates (optionally padded to a
// target size) and small helpers around crypto/tls for the harness.
package tlsfx

import (
	"crypto/ecdsa"
	"crypto/elliptic"
	"crypto/rand"
	"crypto/tls"
	"crypto/x509"
	"crypto/x509/pkix"
	"encoding/asn1"
	"math/big"
	"net"
	"sync"
	"time"
)

// CA is a self-signed certificate authority.
type CA struct {
	Cert *x509.Certificate
	Key  *ecdsa.PrivateKey
	Pool *x509.CertPool
	mu   sync.Mutex
	n    int64
}

// NewCA creates a CA.
func NewCA() (*CA, error) {
	key, err := ecdsa.GenerateKey(elliptic.P256(), rand.Reader)
	if err != nil {
		return nil, err
	}
	now := time.Now()
	tmpl := &x509.Certificate{
		SerialNumber:          big.NewInt(1),
		Subject:               pkix.Name{CommonName: "verif test CA"},
		NotBefore:             now.Add(-time.Hour),
		NotAfter:              now.Add(1000 * time.Hour),
		KeyUsage:              x509.KeyUsageCertSign | x509.KeyUsageDigitalSignature,
		BasicConstraintsValid: true,
		IsCA:                  true,
	}
	der, err := x509.CreateCertificate(rand.Reader, tmpl, tmpl, key.Public(), key)
	if err != nil {
		return nil, err
	}
	cert, err := x509.ParseCertificate(der)
	if err != nil {
		return nil, err
	}
	pool := x509.NewCertPool()
	pool.AddCert(cert)
	return &CA{Cert: cert, Key: key, Pool: pool, n: 1}, nil
}

var padOID = asn1.ObjectIdentifier{1, 3, 6, 1, 4, 1, 55555, 1}

// Leaf issues a certificate for the names (DNS names or IP literals). pad adds
// a non-critical extension of that many bytes; client marks it for client auth.
func (ca *CA) Leaf(names []string, pad int, client bool) (tls.Certificate, error) {
	key, err := ecdsa.GenerateKey(elliptic.P256(), rand.Reader)
	if err != nil {
		return tls.Certificate{}, err
	}
	ca.mu.Lock()
	ca.n++
	serial := ca.n
	ca.mu.Unlock()
	now := time.Now()
	tmpl := &x509.Certificate{
		SerialNumber: big.NewInt(serial),
		Subject:      pkix.Name{CommonName: "leaf"},
		NotBefore:    now.Add(-time.Hour),
		NotAfter:     now.Add(500 * time.Hour),
		KeyUsage:     x509.KeyUsageDigitalSignature,
		ExtKeyUsage:  []x509.ExtKeyUsage{x509.ExtKeyUsageServerAuth},
	}
	if client {
		tmpl.ExtKeyUsage = []x509.ExtKeyUsage{x509.ExtKeyUsageClientAuth}
	}
	for _, n := range names {
		if ip := net.ParseIP(n); ip != nil {
			tmpl.IPAddresses = append(tmpl.IPAddresses, ip)
		} else {
			tmpl.DNSNames = append(tmpl.DNSNames, n)
		}
	}
	if pad > 0 {
		v, _ := asn1.Marshal(make([]byte, pad))
		tmpl.ExtraExtensions = []pkix.Extension{{Id: padOID, Value: v}}
	}
	der, err := x509.CreateCertificate(rand.Reader, tmpl, ca.Cert, key.Public(), ca.Key)
	if err != nil {
		return tls.Certificate{}, err
	}
	leaf, err := x509.ParseCertificate(der)
	if err != nil {
		return tls.Certificate{}, err
	}
	return tls.Certificate{Certificate: [][]byte{der}, PrivateKey: key, Leaf: leaf}, nil
}

// ChainSize returns the number of DER bytes in the chain.
func ChainSize(c tls.Certificate) int {
	n := 0
	for _, d := range c.Certificate {
		n += len(d)
	}
	return n
}

// Recorder wraps a net.Conn and records the bytes written and read.
type Recorder struct {
	net.Conn
	mu      sync.Mutex
	Written []byte
	ReadB   []byte
}

func (r *Recorder) Write(p []byte) (int, error) {
	n, err := r.Conn.Write(p)
	r.mu.Lock()
	r.Written = append(r.Written, p[:n]...)
	r.mu.Unlock()
	return n, err
}

func (r *Recorder) Read(p []byte) (int, error) {
	n, err := r.Conn.Read(p)
	r.mu.Lock()
	r.ReadB = append(r.ReadB, p[:n]...)
	r.mu.Unlock()
	return n, err
}

// Snapshot returns copies of what was written and read so far.
func (r *Recorder) Snapshot() ([]byte, []byte) {
	r.mu.Lock()
	defer r.mu.Unlock()
	return append([]byte{}, r.Written...), append([]byte{}, r.ReadB...)
}
