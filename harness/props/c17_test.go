package props

import (
	"bytes"
	"context"
	"crypto/tls"
	"crypto/x509"
	"errors"
	"fmt"
	"net"
	"net/http"
	"strings"
	"sync"
	"testing"
	"time"

	"github.com/c2FmZQ/ech"
	"github.com/c2FmZQ/ech/dns"
	"pgregory.net/rapid"

	"verif/harness/dnsfx"
	"verif/harness/ev"
	"verif/harness/hello"
)

type c17Call struct {
	Network    string
	Addr       string
	ServerName string
	ECH        []byte
	ECHNil     bool
	NextProtos []string
	Outcome    string
}

// toResult converts a reference outcome into a ResolveResult for RefTargets.
func toResult(w dnsfx.RefOutcome) ech.ResolveResult {
	conv := func(a string) net.IP {
		ip := net.ParseIP(a)
		if v4 := ip.To4(); v4 != nil {
			return v4
		}
		return ip
	}
	rr := ech.ResolveResult{Port: w.Port, HTTPS: w.HTTPS}
	for _, a := range w.Address {
		rr.Address = append(rr.Address, conv(a))
	}
	for k, l := range w.Additional {
		if rr.Additional == nil {
			rr.Additional = map[string][]net.IP{}
		}
		for _, a := range l {
			rr.Additional[k] = append(rr.Additional[k], conv(a))
		}
	}
	return rr
}

// c17WarmupAddr is the (down) target of the earlier Dial made on a reused Dialer.
const c17WarmupAddr = "192.0.2.250:443"

func TestC17(t *testing.T) {
	rec := ev.Get("C17")
	rec.Rule("zones (service records with/without ech, several targets, aliases, CNAMEs; C14 generators) behind the loopback DoH server; address forms host, host:port, comma-separated lists, IP literals; Dialer{RequireECH, PublicName, MaxConcurrency 1..3}; caller tls.Config nil / with ServerName / with an ECH config list / with other fields; in a third of the single-entry cases the Dialer is driven through Transport.RoundTrip (https URL, Transport.TLSConfig = the caller config) instead of Dial; scripted DialFunc outcomes per address {ok, error, ECH rejection with retry configs, without, rejection twice}. Oracle: invariants over the DialFunc call log - never a nil or empty ECH list under RequireECH; caller list and ServerName never replaced; otherwise ServerName = host the caller wrote and the list = ech of the HTTPS record the reference Targets attributes the address to (or the PublicName bootstrap config, or nil); a rejection with retry configs causes exactly one more call to the same address with exactly those configs; caller's tls.Config unchanged. distinct = (zone shape, options, outcome script); non-trivial = 2+ targets or a rejection outcome")
	rec.Mandatory("require_ech_record_without_ech", "alias_and_target_names", "retry", "caller_list_and_record_list", "public_name_bootstrap", "caller_server_name", "multi_host_list", "rejection_without_configs", "rejection_twice", "via_transport")
	rapid.Check(t, func(t *rapid.T) {
		z := dnsfx.NewZone()
		z.Version = 1
		g := &zoneGen{t: t, z: z, ttl: func() uint32 { return 60 }}
		var cl []string
		hosts := []string{"h1.example"}
		if rapid.IntRange(0, 2).Draw(t, "two_hosts") == 0 {
			hosts = append(hosts, "h2.example")
			cl = append(cl, "multi_host_list")
		}
		g.addrs("t1.example", "t1", 1)
		g.addrs("t2.example", "t2", 1)
		var entries []string
		for hi, h := range hosts {
			port := rapid.SampledFrom([]int{-1, 443, 8443}).Draw(t, "port")
			entry := h
			svcb := h
			if port > 0 {
				entry = fmt.Sprintf("%s:%d", h, port)
				if port != 443 {
					svcb = fmt.Sprintf("_%d._https.%s", port, h)
				}
			}
			if rapid.IntRange(0, 9).Draw(t, "literal") == 0 {
				entry = fmt.Sprintf("192.0.2.%d:443", 200+hi)
				entries = append(entries, entry)
				continue
			}
			entries = append(entries, entry)
			if rapid.IntRange(0, 3).Draw(t, "host_cname") == 0 {
				z.CNAME[h] = dnsfx.ZRec{TTL: 60, CNAME: "cname-" + h}
				g.addrs("cname-"+h, "ca"+h, 1)
			} else {
				g.addrs(h, "a"+h, 1)
			}
			switch rapid.IntRange(0, 4).Draw(t, "svcb_kind") {
			case 0:
			case 1: // alias then service
				z.HTTPS[svcb] = []dnsfx.ZRec{{TTL: 60, HTTPS: dns.HTTPS{Priority: 0, Target: "alias-" + h}}}
				g.service("alias-"+h, "as"+h)
				g.addrs("alias-"+h, "aa"+h, 1)
				cl = append(cl, "alias_and_target_names")
			default:
				g.service(svcb, "s"+h)
			}
		}
		// give every host its own target names (and addresses) so that an
		// address identifies the host entry it was resolved for
		ownerSet := map[string]bool{}
		for owner := range z.HTTPS {
			ownerSet[owner] = true
		}
		for _, owner := range dnsfx.SortedKeys(ownerSet) { // sorted: draws must not depend on map order
			l := z.HTTPS[owner]
			for i := range l {
				tg := l[i].HTTPS.Target
				if tg == "t1.example" || tg == "t2.example" {
					nt := strings.TrimSuffix(tg, ".example") + "-for-" + strings.NewReplacer("_", "", ".", "-").Replace(owner) + ".example"
					l[i].HTTPS.Target = nt
					if !z.Exists(nt) {
						g.addrs(nt, "ta"+nt, 1)
					}
				}
			}
		}
		delete(z.A, "t1.example")
		delete(z.A, "t2.example")
		delete(z.AAAA, "t1.example")
		delete(z.AAAA, "t2.example")
		addrArg := strings.Join(entries, rapid.SampledFrom([]string{",", ", "}).Draw(t, "sep"))
		// the same Dialer as used by Transport: the resolution result (filtered to the records
		// usable over TCP, cloned) reaches Dial through the request context
		viaTransport := len(entries) == 1 && rapid.IntRange(0, 2).Draw(t, "via_transport") == 0
		hostOverride := viaTransport && rapid.Bool().Draw(t, "host_header_override")
		dialerResolverSet := viaTransport && rapid.Bool().Draw(t, "dialer_resolver_set")
		if viaTransport {
			cl = append(cl, "via_transport")
		}
		// options
		d := &ech.Dialer[*fakeConn]{RequireECH: rapid.Bool().Draw(t, "require_ech"), MaxConcurrency: rapid.IntRange(1, 3).Draw(t, "maxconc"), ConcurrencyDelay: time.Millisecond, Timeout: 5 * time.Second}
		badPublicName := false
		switch rapid.IntRange(0, 8).Draw(t, "public_name") {
		case 0, 1, 2:
			d.PublicName = "bootstrap.example"
		case 3:
			// a public name no ECH config can carry (> 255 bytes): whenever the bootstrap config
			// is needed Dial fails; it never falls back to dialing without it
			d.PublicName = strings.Repeat("p", 300)
			badPublicName = true
			cl = append(cl, "public_name_too_long")
		}
		var tc *tls.Config
		callerList := []byte(nil)
		switch rapid.IntRange(0, 3).Draw(t, "tc_kind") {
		case 0:
		case 1:
			tc = &tls.Config{ServerName: "caller-name.example", NextProtos: []string{"h2"}}
			if rapid.Bool().Draw(t, "tc_max_tls12") {
				tc.MaxVersion = tls.VersionTLS12 // whatever the caller's version bounds, RequireECH is RequireECH
			}
			cl = append(cl, "caller_server_name")
		case 2:
			callerList = []byte("CALLER-ECH-LIST")
			tc = &tls.Config{EncryptedClientHelloConfigList: callerList, MinVersion: tls.VersionTLS13}
		default:
			tc = &tls.Config{NextProtos: []string{"h2", "http/1.1"}, MinVersion: tls.VersionTLS13, RootCAs: x509.NewCertPool()}
			if rapid.IntRange(0, 2).Draw(t, "tc_version_cap") == 0 {
				tc.MinVersion, tc.MaxVersion = 0, tls.VersionTLS12
			}
			if rapid.Bool().Draw(t, "tc_both") {
				tc.ServerName = "caller-name.example"
				callerList = []byte("CALLER-ECH-LIST")
				tc.EncryptedClientHelloConfigList = callerList
				cl = append(cl, "caller_server_name")
			}
		}
		var snapshot *tls.Config
		if tc != nil {
			snapshot = tc.Clone()
		}
		// expectations per address
		type expect struct {
			host string
			ech  []byte
			rec  int
		}
		exp := map[string]expect{}
		anyRecordECH := false
		ntargets := 0
		for _, e := range entries {
			w := dnsfx.RefResolve(z, e)
			if w.Err != "" {
				continue
			}
			host := e
			if h, _, err := net.SplitHostPort(e); err == nil {
				host = h
			}
			if viaTransport {
				var keep []dns.HTTPS
				for _, h := range w.HTTPS {
					if h.Priority > 0 && usableTCP(h) {
						keep = append(keep, h)
					}
				}
				w.HTTPS = keep
			}
			for _, tg := range dnsfx.RefTargets(toResult(w), "tcp") {
				exp[tg.Addr.String()] = expect{host: host, ech: tg.ECH, rec: tg.Rec}
				ntargets++
				if tg.ECH != nil {
					anyRecordECH = true
				} else if tg.Rec >= 0 && d.RequireECH && callerList == nil && d.PublicName == "" {
					cl = append(cl, "require_ech_record_without_ech")
				}
			}
		}
		if callerList != nil && anyRecordECH {
			cl = append(cl, "caller_list_and_record_list")
		}
		reusedDialer := !viaTransport && !badPublicName && rapid.IntRange(0, 2).Draw(t, "dialer_used_before_with_other_public_name") == 0
		if reusedDialer {
			cl = append(cl, "dialer_reused")
		}
		// scripted outcomes
		outcomes := map[string]string{}
		retryList := []byte("RETRY-CONFIG-LIST")
		var mu sync.Mutex
		var calls []c17Call
		rejection := false
		d.DialFunc = func(ctx context.Context, network, addr string, c *tls.Config) (*fakeConn, error) {
			if addr == c17WarmupAddr {
				return nil, errors.New("warm-up target is down") // the earlier Dial of a reused Dialer
			}
			mu.Lock()
			defer mu.Unlock()
			n := 0
			for _, x := range calls {
				if x.Addr == addr {
					n++
				}
			}
			o := outcomes[addr]
			call := c17Call{Network: network, Addr: addr, ServerName: c.ServerName, ECH: append([]byte{}, c.EncryptedClientHelloConfigList...), ECHNil: c.EncryptedClientHelloConfigList == nil, NextProtos: c.NextProtos, Outcome: o}
			calls = append(calls, call)
			switch o {
			case "ok":
				return &fakeConn{}, nil
			case "error":
				return nil, errors.New("connection refused")
			case "reject_retry": // rejected once with retry configs, then ok
				if n == 0 {
					return nil, fmt.Errorf("handshake: %w", &tls.ECHRejectionError{RetryConfigList: retryList})
				}
				return &fakeConn{}, nil
			case "reject_noconfigs":
				return nil, &tls.ECHRejectionError{}
			default: // reject_twice: every rejection carries retry configs, each time other ones
				if n == 0 {
					return nil, &tls.ECHRejectionError{RetryConfigList: retryList}
				}
				return nil, &tls.ECHRejectionError{RetryConfigList: []byte(fmt.Sprintf("RETRY-CONFIG-LIST-AFTER-%d", n))}
			}
		}
		expKeys := map[string]bool{}
		for a := range exp {
			expKeys[a] = true
		}
		for _, a := range dnsfx.SortedKeys(expKeys) {
			outcomes[a] = rapid.SampledFrom([]string{"ok", "error", "error", "reject_retry", "reject_noconfigs", "reject_twice"}).Draw(t, "outcome_"+a)
		}
		rp := map[string]any{"via_transport": viaTransport, "addr": addrArg, "zone": z.Describe(), "require_ech": d.RequireECH, "public_name": d.PublicName, "caller_list": callerList != nil, "caller_server_name": tc != nil && tc.ServerName != "", "outcomes": outcomes}
		var derr error
		withZoneServer(z, nil, func(url string, srv *dnsfx.Server) {
			r, err := ech.NewResolver(url)
			if err != nil {
				t.Fatalf("harness: %v", err)
			}
			r.SetCacheSize(0)
			d.Resolver = r
			ctx, cancel := context.WithTimeout(context.Background(), 30*time.Second)
			defer cancel()
			if viaTransport {
				dt := &ech.Dialer[*tls.Conn]{RequireECH: d.RequireECH, PublicName: d.PublicName, MaxConcurrency: d.MaxConcurrency, ConcurrencyDelay: d.ConcurrencyDelay, Timeout: d.Timeout}
				dt.DialFunc = func(ctx context.Context, network, addr string, c *tls.Config) (*tls.Conn, error) {
					if _, e := d.DialFunc(ctx, network, addr, c); e != nil {
						return nil, e
					}
					return nil, errors.New("scripted success: no real connection in this mode")
				}
				if dialerResolverSet {
					dt.Resolver = r // documented as ignored when the Dialer is used by a Transport
				}
				tr := ech.NewTransport()
				tr.Resolver, tr.Dialer, tr.TLSConfig = r, dt, tc
				req, e := http.NewRequestWithContext(ctx, "GET", "https://"+entries[0]+"/", nil)
				if e != nil {
					t.Fatalf("harness: %v", e)
				}
				if hostOverride {
					// a Host header override (net/http feature) changes what is sent in the request,
					// not whom the connection is made to and authenticated against
					req.Host = "front.example.net"
				}
				derr = guard(func() error {
					resp, e := tr.RoundTrip(req)
					if e == nil {
						resp.Body.Close()
						return nil
					}
					return e
				})
				tr.HTTPTransport.CloseIdleConnections()
			} else {
				if reusedDialer {
					// the application has used this Dialer before, for another front: what that
					// call set up (a bootstrap config list for ITS public name) is not this call's
					real := d.PublicName
					d.PublicName = "earlier-front.example"
					guard(func() error { _, e := d.Dial(ctx, "tcp", c17WarmupAddr, nil); return e })
					d.PublicName = real
				}
				derr = guard(func() error { _, e := d.Dial(ctx, "tcp", addrArg, tc); return e })
			}
			// let late workers finish
			time.Sleep(5 * time.Millisecond)
		})
		if isPanic(derr) {
			ev.Violation(t, "C17", rp, "Dial panicked: %v", derr)
		}
		mu.Lock()
		log := append([]c17Call{}, calls...)
		mu.Unlock()
		var cs []string
		for _, c := range log {
			cs = append(cs, fmt.Sprintf("%s sni=%s ech=%q nil=%v -> %s", c.Addr, c.ServerName, c.ECH, c.ECHNil, c.Outcome))
		}
		rp["calls"] = cs
		perAddr := map[string][]c17Call{}
		for _, c := range log {
			perAddr[c.Addr] = append(perAddr[c.Addr], c)
		}
		for addr, l := range perAddr {
			e, ok := exp[addr]
			if !ok {
				ev.Violation(t, "C17", rp, "DialFunc called for %s, which is not a target of the requested names", addr)
			}
			first := l[0]
			// (a)
			for _, c := range l {
				if d.RequireECH && len(c.ECH) == 0 {
					ev.Violation(t, "C17", rp, "RequireECH is set but %s was dialed without an ECH config list (nil=%v, %d bytes)", addr, c.ECHNil, len(c.ECH))
				}
				// (c) server name
				wantSNI := e.host
				if tc != nil && tc.ServerName != "" {
					wantSNI = tc.ServerName
				}
				if c.ServerName != wantSNI {
					ev.Violation(t, "C17", rp, "%s dialed with ServerName %q, want %q", addr, c.ServerName, wantSNI)
				}
				if c.Network != "tcp" {
					ev.Violation(t, "C17", rp, "network %q", c.Network)
				}
			}
			// (b)/(d) ECH list of the first call
			switch {
			case callerList != nil:
				if !bytes.Equal(first.ECH, callerList) {
					ev.Violation(t, "C17", rp, "caller supplied an ECH config list but %s was dialed with %q", addr, first.ECH)
				}
			case e.ech != nil:
				if !bytes.Equal(first.ECH, e.ech) {
					ev.Violation(t, "C17", rp, "%s was dialed with ECH list %q, its HTTPS record publishes %q", addr, first.ECH, e.ech)
				}
			case badPublicName:
				ev.Violation(t, "C17", rp, "%s was dialed (ECH list %q) although the PublicName bootstrap config cannot be built", addr, first.ECH)
			case d.PublicName != "":
				specs, err := ech.ParseConfigList(first.ECH)
				if err != nil || len(specs) != 1 || string(specs[0].PublicName) != d.PublicName {
					ev.Violation(t, "C17", rp, "%s: expected the PublicName bootstrap config list, got %q (%v)", addr, first.ECH, err)
				}
				if f, err := hello.ParseConfig(first.ECH[2:]); err != nil || string(f.PublicName) != d.PublicName {
					ev.Violation(t, "C17", rp, "%s: bootstrap config is not a well-formed ECHConfig for %q", addr, d.PublicName)
				}
				cl = append(cl, "public_name_bootstrap")
			default:
				if !first.ECHNil {
					ev.Violation(t, "C17", rp, "%s was dialed with a non-nil ECH list %q (%d bytes) although neither the caller, nor DNS, nor PublicName provides one", addr, first.ECH, len(first.ECH))
				}
			}
			// (e) retries
			wantCalls := 1
			if (first.Outcome == "reject_retry" || first.Outcome == "reject_twice") && true {
				wantCalls = 2
			}
			// When Dial succeeded, attempts to other addresses may still be in flight (or be started
			// under a cancelled context) when the log is read: only the upper bound is certain then.
			if len(l) > wantCalls || (derr != nil && len(l) != wantCalls) {
				ev.Violation(t, "C17", rp, "%s (outcome %s) was dialed %d times, want %d", addr, first.Outcome, len(l), wantCalls)
			}
			if wantCalls == 2 && len(l) == 2 {
				if !bytes.Equal(l[1].ECH, retryList) {
					ev.Violation(t, "C17", rp, "retry to %s used ECH list %q, the server's retry configs are %q", addr, l[1].ECH, retryList)
				}
				cl = append(cl, "retry")
				rejection = true
				if first.Outcome == "reject_twice" {
					cl = append(cl, "rejection_twice")
				}
			}
			if first.Outcome == "reject_noconfigs" {
				cl = append(cl, "rejection_without_configs")
				rejection = true
			}
		}
		// (g) when no attempt succeeded, every target of the requested names was tried, except
		// those that RequireECH refuses for want of any ECH config list
		if derr != nil && !isPanic(derr) {
			for _, addr := range dnsfx.SortedKeys(expKeys) {
				e := exp[addr]
				refused := d.RequireECH && callerList == nil && e.ech == nil && d.PublicName == ""
				refused = refused || (badPublicName && callerList == nil) // Dial gives up before any attempt
				if !refused && len(perAddr[addr]) == 0 {
					ev.Violation(t, "C17", rp, "no attempt succeeded (%v) yet %s, a target of %q, was never dialed", derr, addr, e.host)
				}
			}
		}
		// a target that must be refused under RequireECH was never dialed: covered by (a).
		// (f) caller config untouched
		if tc != nil {
			if tc.ServerName != snapshot.ServerName || !bytes.Equal(tc.EncryptedClientHelloConfigList, snapshot.EncryptedClientHelloConfigList) || (tc.EncryptedClientHelloConfigList == nil) != (snapshot.EncryptedClientHelloConfigList == nil) ||
				fmt.Sprint(tc.NextProtos) != fmt.Sprint(snapshot.NextProtos) || tc.MinVersion != snapshot.MinVersion || tc.MaxVersion != snapshot.MaxVersion || tc.RootCAs != snapshot.RootCAs || tc.InsecureSkipVerify != snapshot.InsecureSkipVerify {
				ev.Violation(t, "C17", rp, "Dial modified the caller's tls.Config")
			}
		}
		rec.Case(fmt.Sprintf("%v|%v|%v|%s|%v|%v", z.Describe(), d.RequireECH, d.PublicName, addrArg, tc != nil, outcomes), ntargets >= 2 || rejection, cl, func() any {
			return map[string]any{"addr": addrArg, "require_ech": d.RequireECH, "public_name": d.PublicName, "calls": cs, "err": fmt.Sprint(derr)}
		})
	})
}
