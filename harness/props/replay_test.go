package props

import (
	"context"
	"crypto/ecdh"
	"encoding/hex"
	"encoding/json"
	"io"
	"os"
	"path/filepath"
	"slices"
	"testing"

	"github.com/c2FmZQ/ech"

	"verif/harness/ev"
	"verif/harness/hello"
	"verif/harness/wire"
)

// findCase digs the map that holds "client_stream" out of a replay document.
func findCase(v any) map[string]any {
	m, ok := v.(map[string]any)
	if !ok {
		return nil
	}
	if _, ok := m["client_stream"]; ok {
		return m
	}
	for _, k := range []string{"case"} {
		if c := findCase(m[k]); c != nil {
			return c
		}
	}
	return nil
}

func unhex(t *testing.T, v any) []byte {
	s, _ := v.(string)
	b, err := hex.DecodeString(s)
	if err != nil {
		t.Fatalf("replay: bad hex: %v", err)
	}
	return b
}

func loadReplay(t *testing.T) map[string]any {
	p := os.Getenv("VERIF_REPLAY_FILE")
	if p == "" {
		t.Skip("no VERIF_REPLAY_FILE")
	}
	b, err := os.ReadFile(p)
	if err != nil {
		t.Fatalf("replay: %v", err)
	}
	var doc map[string]any
	if err := json.Unmarshal(b, &doc); err != nil {
		t.Fatalf("replay: %v", err)
	}
	return doc
}

func replayKeys(t *testing.T, c map[string]any) []ech.Key {
	var keys []ech.Key
	ks, _ := c["keys"].([]any)
	for _, k := range ks {
		km := k.(map[string]any)
		priv := unhex(t, km["private"])
		if _, err := ecdh.X25519().NewPrivateKey(priv); err != nil {
			t.Fatalf("replay: key: %v", err)
		}
		keys = append(keys, ech.Key{Config: unhex(t, km["config"]), PrivateKey: priv, SendAsRetry: true})
	}
	return keys
}

// replayHelloFamily replays the concrete first-hello case named by VERIF_REPLAY_FILE.
func replayHelloFamily(t *testing.T, prop string) {
	replayHelloDoc(t, prop, loadReplay(t))
}

// regress replays every saved case under $VERIF_DIR/regress/<prop>/.
func regress(t *testing.T, prop string, run func(t *testing.T, doc map[string]any)) {
	dir := os.Getenv("VERIF_DIR")
	if dir == "" {
		dir = "/verif"
	}
	files, _ := filepath.Glob(filepath.Join(dir, "regress", prop, "*.json"))
	for _, f := range files {
		b, err := os.ReadFile(f)
		if err != nil {
			t.Fatalf("regress: %v", err)
		}
		var doc map[string]any
		if err := json.Unmarshal(b, &doc); err != nil {
			t.Fatalf("regress: %s: %v", f, err)
		}
		os.Setenv("VERIF_REPLAY_FILE", f)
		t.Run(filepath.Base(f), func(t *testing.T) { run(t, doc) })
		ev.Get(prop).Class("regress_replayed")
	}
}

// replayHelloDoc replays a concrete first-hello case without rapid.
func replayHelloDoc(t *testing.T, prop string, doc map[string]any) {
	c := findCase(doc)
	if c == nil {
		t.Fatalf("replay: no client_stream in %v", doc)
	}
	keys := replayKeys(t, c)
	stream := unhex(t, c["client_stream"])
	tr := wire.New(stream, io.EOF)
	conn, err := newConn(context.Background(), tr, keys)
	expect, _ := c["expect"].(string)
	t.Logf("replay %s expect=%s err=%v", prop, expect, err)
	switch expect {
	case "accept_exact":
		if err != nil || !conn.ECHAccepted() {
			t.Fatalf("VERIF-VIOLATION property=%s replay=%s :: not accepted: %v", prop, os.Getenv("VERIF_REPLAY_FILE"), err)
		}
		got, e := readOneRecord(conn)
		want := hello.Record(22, 0x0303, unhex(t, c["want_inner_msg"]))
		if e != nil || !sameRecord(got, want) {
			t.Fatalf("VERIF-VIOLATION property=%s replay=%s :: reconstructed inner differs (err=%v)\n got %x\nwant %x", prop, os.Getenv("VERIF_REPLAY_FILE"), e, got, want)
		}
		if sn, ok := c["want_server_name"].(string); ok && conn.ServerName() != sn {
			t.Fatalf("VERIF-VIOLATION property=%s :: ServerName %q != %q", prop, conn.ServerName(), sn)
		}
		if wa, ok := c["want_alpn"].([]any); ok {
			var w []string
			for _, x := range wa {
				w = append(w, x.(string))
			}
			if !slices.Equal(w, conn.ALPNProtos()) && !(len(w) == 0 && len(conn.ALPNProtos()) == 0) {
				t.Fatalf("VERIF-VIOLATION property=%s :: ALPN %q != %q", prop, conn.ALPNProtos(), w)
			}
		}
	case "not_accepted":
		if isPanic(err) {
			t.Logf("panic (C08): %v", err)
			return
		}
		if err != nil {
			return
		}
		if conn.ECHAccepted() {
			t.Fatalf("VERIF-VIOLATION property=%s replay=%s :: accepted", prop, os.Getenv("VERIF_REPLAY_FILE"))
		}
		if len(stream) > 5 {
			if _, perr := hello.ParseMessage(stream[5:]); perr == nil {
				got, e := readOneRecord(conn)
				if e != nil || !sameRecord(got, stream) {
					t.Fatalf("VERIF-VIOLATION property=%s replay=%s :: fall-back not transparent (err=%v)\n got %x\nwant %x", prop, os.Getenv("VERIF_REPLAY_FILE"), e, got, stream)
				}
			}
		}
	case "passthrough_exact":
		if err != nil {
			t.Fatalf("VERIF-VIOLATION property=%s replay=%s :: NewConn error %v", prop, os.Getenv("VERIF_REPLAY_FILE"), err)
		}
		if conn.ECHAccepted() {
			t.Fatalf("VERIF-VIOLATION property=%s :: accepted", prop)
		}
		got, e := io.ReadAll(conn)
		if e != nil || len(got) < 5 || len(got) != len(stream) || got[0] != stream[0] || string(got[3:]) != string(stream[3:]) {
			t.Fatalf("VERIF-VIOLATION property=%s replay=%s :: stream not passed through unchanged (err=%v)\n got %x\nwant %x", prop, os.Getenv("VERIF_REPLAY_FILE"), e, got, stream)
		}
		if sn, ok := c["want_server_name"].(string); ok && conn.ServerName() != sn {
			t.Fatalf("VERIF-VIOLATION property=%s :: ServerName %q != %q", prop, conn.ServerName(), sn)
		}
	case "abort":
		class, _ := c["want_error"].(string)
		desc := int(c["want_alert"].(float64))
		checkAbort(t, prop, c, tr, conn, err, class, desc)
	default:
		t.Fatalf("replay: unknown expectation %q", expect)
	}
}

func TestC02Replay(t *testing.T) { replayHelloFamily(t, "C02") }
func TestC03Replay(t *testing.T) { replayHelloFamily(t, "C03") }
func TestC04Replay(t *testing.T) { replayHelloFamily(t, "C04") }
func TestC05Replay(t *testing.T) { replayHelloFamily(t, "C05") }
func TestC09Replay(t *testing.T) { replayHelloFamily(t, "C09") }

func TestC04Regress(t *testing.T) {
	regress(t, "C04", func(t *testing.T, d map[string]any) { replayHelloDoc(t, "C04", d) })
}
func TestC05Regress(t *testing.T) {
	regress(t, "C05", func(t *testing.T, d map[string]any) { replayHelloDoc(t, "C05", d) })
}
func TestC02Regress(t *testing.T) {
	regress(t, "C02", func(t *testing.T, d map[string]any) { replayHelloDoc(t, "C02", d) })
}
func TestC03Regress(t *testing.T) {
	regress(t, "C03", func(t *testing.T, d map[string]any) { replayHelloDoc(t, "C03", d) })
}
