//go:build verif

package props

import (
	"bytes"
	"context"
	"encoding/base64"
	"encoding/json"
	"fmt"
	"io"
	"net"
	"net/http"
	"net/url"
	"slices"
	"sort"
	"strconv"
	"strings"
	"sync"
	"testing"
	"time"

	"github.com/c2FmZQ/ech/publish"
	"pgregory.net/rapid"

	"verif/harness/ev"
	"verif/harness/hello"
)

// ---- fake Cloudflare v4 API ------------------------------------------------

type cfRecord struct {
	ID       string
	Name     string
	Type     string
	Priority int
	Target   string
	Value    string
}

type cfZone struct {
	ID      string
	Name    string
	Records []*cfRecord
}

type cfReq struct {
	Method string
	Path   string
	Query  string
	Body   string
}

type cfAPI struct {
	mu    sync.Mutex
	zones []*cfZone
	log   []cfReq
	// failures: key -> kind ("http403", "http404", "notsuccess", "http500")
	fail map[string]string
	// onPatch, when set, runs when a PATCH request arrives (before it is answered)
	onPatch func(recID string)
	token   string
	srv     *http.Server
	url     url.URL
}

func newCFAPI() (*cfAPI, error) {
	ln, err := net.Listen("tcp", "127.0.0.1:0")
	if err != nil {
		return nil, err
	}
	a := &cfAPI{fail: map[string]string{}, token: "tok"}
	a.url = url.URL{Scheme: "http", Host: ln.Addr().String(), Path: "/client/v4/zones"}
	a.srv = &http.Server{Handler: http.HandlerFunc(a.handle)}
	a.srv.SetKeepAlivesEnabled(false)
	go a.srv.Serve(ln)
	return a, nil
}

func (a *cfAPI) reply(w http.ResponseWriter, status int, v any) {
	b, _ := json.Marshal(v)
	w.Header().Set("Content-Type", "application/json")
	w.Header().Set("Content-Length", strconv.Itoa(len(b)))
	w.WriteHeader(status)
	w.Write(b)
}

func (a *cfAPI) failed(w http.ResponseWriter, key string) bool {
	kind, ok := a.fail[key]
	if !ok {
		return false
	}
	switch kind {
	case "http403":
		a.reply(w, 403, map[string]any{"success": false, "errors": []map[string]any{{"code": 9109, "message": "Unauthorized"}}, "result": nil})
	case "http404":
		a.reply(w, 404, map[string]any{"success": false, "errors": []map[string]any{{"code": 7003, "message": "not found"}}, "result": nil})
	case "http500":
		a.reply(w, 500, map[string]any{"success": false, "errors": []map[string]any{{"code": 1, "message": "internal"}}})
	case "notsuccess_bare":
		// HTTP 200, success false, and no error details at all
		a.reply(w, 200, map[string]any{"success": false, "errors": []any{}, "messages": []any{}, "result": nil})
	case "notsuccess_noerrors_field":
		a.reply(w, 200, map[string]any{"success": false, "result": nil})
	default:
		a.reply(w, 200, map[string]any{"success": false, "errors": []map[string]any{{"code": 1004, "message": "validation failed"}}, "result": nil})
	}
	return true
}

func (a *cfAPI) handle(w http.ResponseWriter, r *http.Request) {
	body, _ := io.ReadAll(r.Body)
	a.mu.Lock()
	defer a.mu.Unlock()
	a.log = append(a.log, cfReq{r.Method, r.URL.Path, r.URL.RawQuery, string(body)})
	if r.Header.Get("Authorization") != "Bearer "+a.token {
		a.reply(w, 403, map[string]any{"success": false, "errors": []map[string]any{{"code": 10000, "message": "Authentication error"}}})
		return
	}
	parts := strings.Split(strings.TrimPrefix(r.URL.Path, "/client/v4/zones"), "/")
	// "" | "", id, "dns_records" | "", id, "dns_records", rid
	switch {
	case len(parts) == 1 && r.Method == "GET":
		name := r.URL.Query().Get("name")
		if a.failed(w, "zones:"+name) {
			return
		}
		var res []map[string]any
		for _, z := range a.zones {
			if name == "" || z.Name == name {
				res = append(res, map[string]any{"id": z.ID, "name": z.Name})
			}
		}
		if res == nil {
			res = []map[string]any{}
		}
		a.reply(w, 200, map[string]any{"success": true, "errors": []any{}, "messages": []any{}, "result": res,
			"result_info": map[string]any{"page": 1, "per_page": 20, "count": len(res), "total_count": len(res), "total_pages": 1}})
	case len(parts) == 3 && parts[2] == "dns_records" && r.Method == "GET":
		z := a.zoneByID(parts[1])
		if z == nil {
			a.reply(w, 404, map[string]any{"success": false, "errors": []map[string]any{{"code": 7003, "message": "no such zone"}}})
			return
		}
		if a.failed(w, "list:"+z.Name) {
			return
		}
		q := r.URL.Query()
		page, _ := strconv.Atoi(q.Get("page"))
		per, _ := strconv.Atoi(q.Get("per_page"))
		if page < 1 {
			page = 1
		}
		if per < 1 {
			per = 100
		}
		var match []*cfRecord
		for _, rec := range z.Records {
			if t := q.Get("type"); t != "" && t != rec.Type {
				continue
			}
			if n := q.Get("name"); n != "" && !strings.EqualFold(n, rec.Name) {
				continue // the API's exact-name filter
			}
			match = append(match, rec)
		}
		lo, hi := (page-1)*per, page*per
		if lo > len(match) {
			lo = len(match)
		}
		if hi > len(match) {
			hi = len(match)
		}
		res := []map[string]any{}
		for _, rec := range match[lo:hi] {
			m := map[string]any{"id": rec.ID, "name": rec.Name, "type": rec.Type, "zone_id": z.ID, "zone_name": z.Name, "ttl": 1}
			if rec.Type == "HTTPS" {
				data := map[string]any{"priority": rec.Priority, "target": rec.Target, "value": rec.Value}
				if rec.Value == "" && len(rec.ID)%2 == 0 {
					delete(data, "value") // optional members may be absent: a record without SvcParams
				}
				m["data"] = data
				m["content"] = fmt.Sprintf("%d %s %s", rec.Priority, rec.Target, rec.Value)
			} else {
				m["content"] = rec.Value
			}
			res = append(res, m)
		}
		// result_info as the v4 API reports it: count = items on this page
		a.reply(w, 200, map[string]any{"success": true, "errors": []any{}, "messages": []any{}, "result": res,
			"result_info": map[string]any{"page": page, "per_page": per, "count": len(res), "total_count": len(match), "total_pages": (len(match) + per - 1) / per}})
	case len(parts) == 4 && parts[2] == "dns_records" && r.Method == "PATCH":
		z := a.zoneByID(parts[1])
		var rec *cfRecord
		if z != nil {
			for _, x := range z.Records {
				if x.ID == parts[3] {
					rec = x
				}
			}
		}
		if rec == nil {
			a.reply(w, 404, map[string]any{"success": false, "errors": []map[string]any{{"code": 81044, "message": "Record does not exist"}}})
			return
		}
		if a.onPatch != nil {
			a.onPatch(rec.ID)
		}
		if a.failed(w, "patch:"+rec.ID) {
			return
		}
		var in struct {
			Data *struct {
				Priority *int    `json:"priority"`
				Target   *string `json:"target"`
				Value    *string `json:"value"`
			} `json:"data"`
		}
		if err := json.Unmarshal(body, &in); err != nil || in.Data == nil {
			a.reply(w, 400, map[string]any{"success": false, "errors": []map[string]any{{"code": 9207, "message": "bad body"}}})
			return
		}
		if in.Data.Priority != nil {
			rec.Priority = *in.Data.Priority
		}
		if in.Data.Target != nil {
			rec.Target = *in.Data.Target
		}
		if in.Data.Value != nil {
			rec.Value = *in.Data.Value
		}
		a.reply(w, 200, map[string]any{"success": true, "errors": []any{}, "messages": []any{}, "result": map[string]any{"id": rec.ID, "name": rec.Name, "type": rec.Type}})
	default:
		a.reply(w, 405, map[string]any{"success": false, "errors": []map[string]any{{"code": 10405, "message": "method not allowed"}}})
	}
}

func (a *cfAPI) zoneByID(id string) *cfZone {
	for _, z := range a.zones {
		if z.ID == id {
			return z
		}
	}
	return nil
}

// ---- model helpers -----------------------------------------------------------

func echOf(value string) (string, bool) {
	for _, tok := range strings.Fields(value) {
		if k, v, ok := strings.Cut(tok, "="); ok && k == "ech" {
			return strings.Trim(v, `"`), true
		}
	}
	return "", false
}

func withoutECH(value string) []string {
	var out []string
	for _, tok := range strings.Fields(value) {
		if k, _, ok := strings.Cut(tok, "="); ok && k == "ech" {
			continue
		}
		out = append(out, tok)
	}
	return out
}

// c20Lists are the config lists a case may publish; record values sometimes carry
// one of them already (in any syntactic form).
var c20Lists [][]byte

func genSvcValue(t *rapid.T, label string) string {
	var toks []string
	if rapid.Bool().Draw(t, label+"_alpn") {
		toks = append(toks, rapid.SampledFrom([]string{`alpn="h2,h3"`, `alpn=h2`, `alpn="h3,h2,http/1.1"`}).Draw(t, label+"_alpnv"))
	}
	if rapid.IntRange(0, 3).Draw(t, label+"_nda") == 0 {
		toks = append(toks, "no-default-alpn")
	}
	if rapid.Bool().Draw(t, label+"_port") {
		toks = append(toks, fmt.Sprintf("port=%d", rapid.IntRange(1, 65535).Draw(t, label+"_portv")))
	}
	if rapid.Bool().Draw(t, label+"_v4") {
		toks = append(toks, `ipv4hint="192.0.2.1,192.0.2.2"`)
	}
	if rapid.Bool().Draw(t, label+"_v6") {
		toks = append(toks, "ipv6hint=2001:db8::1")
	}
	if rapid.IntRange(0, 3).Draw(t, label+"_unk") == 0 {
		toks = append(toks, fmt.Sprintf("key%d=%s", rapid.IntRange(8, 59999).Draw(t, label+"_unkk"), rapid.SampledFrom([]string{"abc", `"x=y"`, "ech", `"ech=fake"`, "a%20b", `"100%s"`, `\\065bc`, "%d%v%%", `"C:\\"`, `"a\"b"`, `"\\"`}).Draw(t, label+"_unkv")))
	}
	if rapid.IntRange(0, 7).Draw(t, label+"_dohpath") == 0 {
		// RFC 9461 dohpath: a URI template, percent-encoded octets and braces included
		toks = append(toks, rapid.SampledFrom([]string{`dohpath="/dns%2Dquery{?dns}"`, "dohpath=/q{?dns}", `key7="/%s{?dns}"`}).Draw(t, label+"_dohpathv"))
	}
	if rapid.IntRange(0, 5).Draw(t, label+"_long") == 0 {
		// a long parameter value (multi-config ech lists and long hints are several hundred bytes):
		// a page of twenty such records is a response of well over 16 KiB
		toks = append(toks, fmt.Sprintf("key%d=%s", rapid.IntRange(60000, 65000).Draw(t, label+"_longk"), strings.Repeat("v", rapid.IntRange(600, 1200).Draw(t, label+"_longl"))))
	}
	toks = rapid.Permutation(toks).Draw(t, label+"_perm")
	if rapid.Bool().Draw(t, label+"_hasech") {
		v := base64.StdEncoding.EncodeToString(hello.GenBytes(t, label+"_ech", rapid.IntRange(1, 40).Draw(t, label+"_echl")))
		if len(c20Lists) > 0 && rapid.IntRange(0, 2).Draw(t, label+"_echcur") == 0 {
			v = base64.StdEncoding.EncodeToString(c20Lists[rapid.IntRange(0, len(c20Lists)-1).Draw(t, label+"_echwhich")])
		}
		tok := `ech="` + v + `"`
		if rapid.IntRange(0, 3).Draw(t, label+"_unq") == 0 {
			tok = "ech=" + v
		}
		pos := rapid.IntRange(0, len(toks)).Draw(t, label+"_echpos")
		toks = append(toks[:pos], append([]string{tok}, toks[pos:]...)...)
	}
	return strings.Join(toks, " ")
}

var (
	cfAPIOnce sync.Once
	cfShared  *cfAPI
	cfMu      sync.Mutex
)

func TestC20(t *testing.T) {
	rec := ev.Get("C20")
	rec.Rule("state machine over a fake Cloudflare v4 API (zones lookup, paged dns_records with result_info as the real API reports it - count = items on this page -, PATCH; failures HTTP 403/404, success:false with and without error details, and 500 in the thorough tier): 1..3 zones with 0..60 HTTPS records whose value is a generated SvcParams string (alpn, no-default-alpn, port, hints, unknown keys, with/without one ech - random or already equal to one of the two lists the case publishes -, quoted/unquoted, any position) plus non-HTTPS records; actions publish(targets drawn from existing / missing / duplicate / unknown-zone names, config list fresh or repeated), edit the zone, switch a failure on/off. Model = copy of the store. Oracle after every publish: one result per target in order with the predicted status class; for every record: requested+existing+no failure -> tokens(value) == tokens(old value without ech) + exactly one ech == base64(list), priority/target kept; otherwise byte-for-byte unchanged; PATCH requests == distinct records whose value was not current; no request touches another record. distinct = (zone shape, target-list shape, failure set); non-trivial = at least one existing target")
	rec.Mandatory("failure_then_recovery_scripted", "record_on_page_ge2", "duplicate_target", "existing_ech_replaced", "value_already_current", "failure_one_zone_only", "unknown_zone", "missing_record", "patch_failure", "current_in_other_form", "same_name_in_parent_and_child_zone", "listing_page_over_16k")
	thorough := false
	rapid.Check(t, func(t *rapid.T) {
		cfAPIOnce.Do(func() {
			a, err := newCFAPI()
			if err != nil {
				panic(err)
			}
			cfShared = a
		})
		cfMu.Lock()
		defer cfMu.Unlock()
		api := cfShared
		var cl []string
		// build the store
		api.zones, api.log, api.fail = nil, nil, map[string]string{}
		lists := [][]byte{hello.GenBytes(t, "list0", 30), hello.GenBytes(t, "list1", 45), hello.GenBytes(t, "list2", 30)}
		if bytes.Equal(lists[0], lists[2]) {
			lists[2][0] ^= 1
		}
		c20Lists = lists
		// the caller serialises each list into one buffer it keeps for the whole run
		pubBuf := make([]byte, 64)
		nz := rapid.IntRange(1, 3).Draw(t, "nzones")
		rid := 0
		// zone 1 may be a delegated child of zone 0, and the parent may still hold a record
		// for a name inside the child: one fully qualified name, two records in two zones
		childZone := nz >= 2 && rapid.IntRange(0, 2).Draw(t, "child_zone") == 0
		for zi := 0; zi < nz; zi++ {
			z := &cfZone{ID: fmt.Sprintf("zone%did", zi), Name: fmt.Sprintf("zone%d.example", zi)}
			if childZone && zi == 1 {
				z.Name = "sub.zone0.example"
			}
			var n int
			switch rapid.IntRange(0, 3).Draw(t, "sizeclass") {
			case 0:
				n = rapid.IntRange(21, 60).Draw(t, "nrec_big")
			default:
				n = rapid.IntRange(0, 8).Draw(t, "nrec")
			}
			if zi == 0 && rapid.IntRange(0, 39).Draw(t, "hosting_provider_zone") == 0 {
				// a zone with well over a thousand HTTPS records: the records this case works on
				// are listed on page 51 and later
				for i, m := 0, 1000+rapid.IntRange(1, 60).Draw(t, "bulk_records"); i < m; i++ {
					rid++
					z.Records = append(z.Records, &cfRecord{ID: fmt.Sprintf("rec%d", rid), Name: fmt.Sprintf("bulk%d.%s", i, z.Name), Type: "HTTPS", Priority: 1, Target: ".", Value: "alpn=h2"})
				}
				cl = append(cl, "zone_over_1000_records")
			}
			heavy := n >= 20 && rapid.Bool().Draw(t, "heavy_values")
			if heavy {
				cl = append(cl, "listing_page_over_16k")
			}
			for i := 0; i < n; i++ {
				rid++
				val := genSvcValue(t, "v")
				if n > 20 && rapid.IntRange(0, 5).Draw(t, "no_params") == 0 {
					val = "" // a ServiceMode record without SvcParams
				}
				if heavy {
					val = strings.TrimSpace(val + " key64999=" + strings.Repeat("w", 900))
				}
				z.Records = append(z.Records, &cfRecord{ID: fmt.Sprintf("rec%d", rid), Name: fmt.Sprintf("h%d.%s", i, z.Name), Type: "HTTPS",
					Priority: rapid.SampledFrom([]int{1, 1, 2, 2, 3, 3, 1, 2, 32767, 32768, 40000, 65535}).Draw(t, "prio"), Target: rapid.SampledFrom([]string{".", "t.example."}).Draw(t, "target"), Value: val})
				if rapid.IntRange(0, 5).Draw(t, "other") == 0 {
					rid++
					z.Records = append(z.Records, &cfRecord{ID: fmt.Sprintf("rec%d", rid), Name: fmt.Sprintf("h%d.%s", i, z.Name), Type: "A", Value: "192.0.2.1"})
				}
			}
			if childZone && zi == 1 && n == 0 {
				rid++
				z.Records = append(z.Records, &cfRecord{ID: fmt.Sprintf("rec%d", rid), Name: "h0." + z.Name, Type: "HTTPS", Priority: 1, Target: ".", Value: genSvcValue(t, "v")})
			}
			api.zones = append(api.zones, z)
		}
		if childZone {
			rid++
			api.zones[0].Records = append(api.zones[0].Records, &cfRecord{ID: fmt.Sprintf("rec%d", rid), Name: "h0.sub.zone0.example", Type: "HTTPS", Priority: 1, Target: ".", Value: genSvcValue(t, "v")})
			cl = append(cl, "same_name_in_parent_and_child_zone")
		}
		cf := publish.NewCloudflarePublisher("tok")
		cf.SetBaseURLForVerif(api.url, 5*time.Millisecond, 2)
		var ops []string
		zoneIDKnown := map[string]bool{}
		nops := rapid.IntRange(1, 6).Draw(t, "nops")
		nontrivial := false
		// scripted prefix (one case in three): a lookup/listing failure for a zone that the
		// publisher has never seen, a publish into that zone, recovery, and a publish again
		var script []int
		forceZone := -1
		if rapid.IntRange(0, 2).Draw(t, "scripted") == 0 {
			forceZone = rapid.IntRange(0, len(api.zones)-1).Draw(t, "script_zone")
			key := []string{"zones:", "list:"}[rapid.IntRange(0, 1).Draw(t, "script_fail")] + api.zones[forceZone].Name
			api.fail[key] = []string{"http403", "http404", "notsuccess", "notsuccess_bare", "notsuccess_noerrors_field"}[rapid.IntRange(0, 4).Draw(t, "script_kind")]
			ops = append(ops, "fail_on:"+key+"="+api.fail[key])
			script = []int{0, 6, 0} // publish, clear failures, publish
			nops += 3
			cl = append(cl, "failure_then_recovery_scripted")
		}
		for op := 0; op < nops; op++ {
			k := -1
			if len(script) > 0 {
				k, script = script[0], script[1:]
			} else {
				forceZone = -1
				k = rapid.IntRange(0, 5).Draw(t, "op")
			}
			switch {
			case k == 6: // all failures off
				api.fail = map[string]string{}
				ops = append(ops, "fail_off:all")
			case k <= 2: // publish
				list := pubBuf[:copy(pubBuf, lists[rapid.IntRange(0, 2).Draw(t, "whichlist")])]
				b64 := base64.StdEncoding.EncodeToString(list)
				nt := rapid.IntRange(0, 6).Draw(t, "ntargets")
				if forceZone >= 0 && nt == 0 {
					nt = 1
				}
				var targets []publish.Target
				var shape []string
				for i := 0; i < nt; i++ {
					z := api.zones[rapid.IntRange(0, len(api.zones)-1).Draw(t, "tz")]
					if forceZone >= 0 && i == 0 {
						z = api.zones[forceZone]
					}
					var https []*cfRecord
					for _, r := range z.Records {
						if r.Type == "HTTPS" {
							https = append(https, r)
						}
					}
					switch kk := rapid.IntRange(0, 9).Draw(t, "tkind"); {
					case kk == 0:
						targets = append(targets, publish.Target{Zone: "unknown-zone.example", Name: "x.unknown-zone.example"})
						shape = append(shape, "unknown_zone")
					case kk == 1 || len(https) == 0:
						targets = append(targets, publish.Target{Zone: z.Name, Name: "missing." + z.Name})
						shape = append(shape, "missing")
					case kk == 3 && len(api.zones) > 1:
						// a name that exists, but in another zone than the one given
						oz := api.zones[(slices.Index(api.zones, z)+1)%len(api.zones)]
						nm := "h0." + oz.Name
						targets = append(targets, publish.Target{Zone: z.Name, Name: nm})
						shape = append(shape, "name_of_other_zone")
					case kk == 2 && len(targets) > 0:
						targets = append(targets, targets[rapid.IntRange(0, len(targets)-1).Draw(t, "dup")])
						shape = append(shape, "dup")
					default:
						idx := uniform(t, "recidx", len(https))
						targets = append(targets, publish.Target{Zone: z.Name, Name: https[idx].Name})
						if idx >= 20 {
							shape = append(shape, "existing_page2+")
						} else {
							shape = append(shape, "existing")
						}
					}
				}
				// model prediction
				type snap struct {
					value, target string
					prio          int
				}
				before := map[string]snap{}
				byName := map[string]*cfRecord{}
				for _, z := range api.zones {
					for _, r := range z.Records {
						before[r.ID] = snap{r.Value, r.Target, r.Priority}
						if r.Type == "HTTPS" {
							byName[z.Name+"|"+r.Name] = r
						}
					}
				}
				fail := map[string]string{}
				for k, v := range api.fail {
					fail[k] = v
				}
				logStart := len(api.log)
				// expected per target
				want := make([][]publish.StatusCode, len(targets))
				expectPatch := map[string]bool{}
				expectValue := map[string]string{} // record id -> b64 expected ech
				current := map[string]string{}     // model of the stored ech per record during this publish
				zoneFailed := map[string]bool{}
				seenTarget := map[string]bool{}
				for i, tg := range targets {
					key := tg.Zone + "|" + tg.Name
					if seenTarget[key] {
						cl = append(cl, "duplicate_target")
					}
					seenTarget[key] = true
					if tg.Zone == "unknown-zone.example" {
						want[i] = []publish.StatusCode{publish.StatusNotFound}
						cl = append(cl, "unknown_zone")
						continue
					}
					if fail["zones:"+tg.Zone] == "" {
						zoneIDKnown[tg.Zone] = true // the publisher remembers zone ids across calls
					}
					if !zoneIDKnown[tg.Zone] || fail["list:"+tg.Zone] != "" {
						zoneFailed[tg.Zone] = true
						want[i] = []publish.StatusCode{publish.StatusError, publish.StatusNotFound}
						continue
					}
					r := byName[key]
					if r == nil {
						want[i] = []publish.StatusCode{publish.StatusNotFound}
						cl = append(cl, "missing_record")
						continue
					}
					nontrivial = true
					cur, had := current[r.ID]
					if !had {
						cur, _ = echOf(r.Value)
						if c, ok := echOf(r.Value); ok && c != b64 {
							cl = append(cl, "existing_ech_replaced")
						}
					}
					if cur == b64 {
						want[i] = []publish.StatusCode{publish.StatusNoChange}
						cl = append(cl, "value_already_current")
						if f := strings.Fields(r.Value); !had && len(f) > 0 && f[len(f)-1] != `ech="`+b64+`"` {
							cl = append(cl, "current_in_other_form") // unquoted, or not the last parameter
						}
						continue
					}
					if fail["patch:"+r.ID] != "" {
						want[i] = []publish.StatusCode{publish.StatusError}
						cl = append(cl, "patch_failure")
						continue
					}
					want[i] = []publish.StatusCode{publish.StatusUpdated}
					expectPatch[r.ID] = true
					expectValue[r.ID] = b64
					current[r.ID] = b64
				}
				if len(zoneFailed) > 0 && len(zoneFailed) < len(seenZones(targets)) {
					cl = append(cl, "failure_one_zone_only")
				}
				for _, s := range shape {
					if s == "existing_page2+" {
						cl = append(cl, "record_on_page_ge2")
					}
				}
				ops = append(ops, fmt.Sprintf("publish(%v)", shape))
				ctx, cancel := context.WithTimeout(context.Background(), 60*time.Second)
				var results []publish.TargetResult
				perr := guard(func() error { results = cf.PublishECH(ctx, targets, list); return nil })
				cancel()
				reqs := append([]cfReq{}, api.log[logStart:]...)
				var store []string
				for _, z := range api.zones {
					for _, r := range z.Records {
						store = append(store, fmt.Sprintf("%s %s %s prio=%d target=%s value=%s", z.Name, r.ID, r.Name, r.Priority, r.Target, r.Value))
					}
				}
				rp := map[string]any{"ops": ops, "targets": fmt.Sprintf("%+v", targets), "config_list_b64": b64, "failures": fail, "store_after": store}
				var rq []string
				for _, r := range reqs {
					rq = append(rq, r.Method+" "+r.Path+"?"+r.Query)
				}
				rp["requests"] = rq
				if perr != nil {
					ev.Violation(t, "C20", rp, "PublishECH panicked: %v", perr)
				}
				if len(results) != len(targets) {
					ev.Violation(t, "C20", rp, "%d results for %d targets", len(results), len(targets))
				}
				for i, res := range results {
					ok := false
					for _, w := range want[i] {
						ok = ok || res.Code == w
					}
					if !ok {
						ev.Violation(t, "C20", rp, "result %d (%+v) is %q, the model predicts %v", i, targets[i], res.String(), want[i])
					}
				}
				// store
				for _, z := range api.zones {
					for _, r := range z.Records {
						b := before[r.ID]
						if want, ok := expectValue[r.ID]; ok {
							got, has := echOf(r.Value)
							n := 0
							for _, tok := range strings.Fields(r.Value) {
								if k, _, ok := strings.Cut(tok, "="); ok && k == "ech" {
									n++
								}
							}
							if !has || got != want || n != 1 {
								ev.Violation(t, "C20", rp, "record %s (%s): stored value %q does not hold exactly one ech equal to %s", r.ID, r.Name, r.Value, want)
							}
							if fmt.Sprint(withoutECH(r.Value)) != fmt.Sprint(withoutECH(b.value)) {
								ev.Violation(t, "C20", rp, "record %s (%s): other service parameters changed: %q -> %q", r.ID, r.Name, b.value, r.Value)
							}
							if r.Target != b.target || r.Priority != b.prio {
								ev.Violation(t, "C20", rp, "record %s: priority/target changed from %d %q to %d %q", r.ID, b.prio, b.target, r.Priority, r.Target)
							}
						} else if r.Value != b.value || r.Target != b.target || r.Priority != b.prio {
							ev.Violation(t, "C20", rp, "record %s (%s) was not to be written but changed: %q -> %q", r.ID, r.Name, b.value, r.Value)
						}
					}
				}
				// requests
				patched := map[string]int{}
				for _, r := range reqs {
					if r.Method == "PATCH" {
						p := strings.Split(r.Path, "/")
						patched[p[len(p)-1]]++
					} else if r.Method != "GET" {
						ev.Violation(t, "C20", rp, "unexpected %s %s", r.Method, r.Path)
					}
				}
				for id, n := range patched {
					failedPatch := false
					for _, tg := range targets {
						if r := byName[tg.Zone+"|"+tg.Name]; r != nil && r.ID == id && fail["patch:"+id] != "" {
							failedPatch = true
						}
					}
					if failedPatch {
						continue // failing PATCHes may be attempted (and retried for 5xx)
					}
					if !expectPatch[id] {
						ev.Violation(t, "C20", rp, "record %s was PATCHed although it was not requested or already current", id)
					}
					if n != 1 {
						ev.Violation(t, "C20", rp, "record %s was PATCHed %d times in one PublishECH", id, n)
					}
				}
				for id := range expectPatch {
					if patched[id] == 0 {
						ev.Violation(t, "C20", rp, "record %s should have been updated but no PATCH was sent", id)
					}
				}
			case k == 3: // edit the zone
				z := api.zones[rapid.IntRange(0, len(api.zones)-1).Draw(t, "ez")]
				if len(z.Records) > 0 {
					r := z.Records[uniform(t, "er", len(z.Records))]
					if r.Type == "HTTPS" {
						r.Value = genSvcValue(t, "ev")
					}
				}
				ops = append(ops, "edit")
			default: // failure on/off
				z := api.zones[rapid.IntRange(0, len(api.zones)-1).Draw(t, "fz")]
				var key string
				switch rapid.IntRange(0, 3).Draw(t, "fkind") {
				case 0:
					key = "zones:" + z.Name
				case 1:
					key = "list:" + z.Name
				default:
					if len(z.Records) == 0 {
						continue
					}
					key = "patch:" + z.Records[uniform(t, "fr", len(z.Records))].ID
				}
				if _, on := api.fail[key]; on {
					delete(api.fail, key)
					ops = append(ops, "fail_off:"+key)
				} else {
					kinds := []string{"http403", "http404", "notsuccess", "notsuccess_bare", "notsuccess_noerrors_field"}
					if thorough {
						kinds = append(kinds, "http500")
					}
					api.fail[key] = kinds[rapid.IntRange(0, len(kinds)-1).Draw(t, "fk")]
					ops = append(ops, "fail_on:"+key+"="+api.fail[key])
				}
			}
		}
		rec.Case(strings.Join(ops, ";")+fmt.Sprint(nz), nontrivial, cl, func() any { return map[string]any{"ops": ops, "zones": nz} })
	})
}

func seenZones(ts []publish.Target) map[string]bool {
	m := map[string]bool{}
	for _, t := range ts {
		if t.Zone != "unknown-zone.example" {
			m[t.Zone] = true
		}
	}
	return m
}

var _ = sort.Strings

// TestC20Cancel: the caller's context ends while a record is being written. Whatever
// the statuses then are, the call still returns exactly one result per requested
// record, and no record other than the requested ones is touched.
func TestC20Cancel(t *testing.T) {
	rec := ev.Get("C20")
	rapid.Check(t, func(t *rapid.T) {
		cfAPIOnce.Do(func() {
			a, err := newCFAPI()
			if err != nil {
				panic(err)
			}
			cfShared = a
		})
		cfMu.Lock()
		defer cfMu.Unlock()
		api := cfShared
		api.zones, api.log, api.fail = nil, nil, map[string]string{}
		c20Lists = nil
		z := &cfZone{ID: "zonecid", Name: "cancel.example"}
		n := rapid.IntRange(2, 8).Draw(t, "nrec")
		for i := 0; i < n; i++ {
			z.Records = append(z.Records, &cfRecord{ID: fmt.Sprintf("crec%d", i), Name: fmt.Sprintf("h%d.%s", i, z.Name), Type: "HTTPS", Priority: 1, Target: ".", Value: genSvcValue(t, "v")})
		}
		api.zones = []*cfZone{z}
		before := map[string]string{}
		for _, r := range z.Records {
			before[r.ID] = r.Value
		}
		var targets []publish.Target
		requested := map[string]bool{}
		for _, i := range rapid.Permutation([]int{0, 1, 2, 3, 4, 5, 6, 7}[:n]).Draw(t, "order")[:rapid.IntRange(2, n).Draw(t, "ntargets")] {
			targets = append(targets, publish.Target{Zone: z.Name, Name: z.Records[i].Name})
			requested[z.Records[i].ID] = true
		}
		cancelOn := rapid.IntRange(1, len(targets)).Draw(t, "cancel_on_nth_patch")
		ctx, cancel := context.WithCancel(context.Background())
		defer cancel()
		npatch := 0
		api.onPatch = func(string) {
			npatch++
			if npatch == cancelOn {
				cancel()
				time.Sleep(10 * time.Millisecond) // the client notices before the answer arrives
			}
		}
		defer func() { api.onPatch = nil }()
		cf := publish.NewCloudflarePublisher("tok")
		cf.SetBaseURLForVerif(api.url, 5*time.Millisecond, 2)
		list := hello.GenBytes(t, "list", 40)
		var results []publish.TargetResult
		perr := guard(func() error { results = cf.PublishECH(ctx, targets, list); return nil })
		rp := map[string]any{"targets": fmt.Sprintf("%+v", targets), "cancel_on_patch": cancelOn, "results": fmt.Sprintf("%+v", results)}
		if perr != nil {
			ev.Violation(t, "C20", rp, "PublishECH panicked: %v", perr)
		}
		if len(results) != len(targets) {
			ev.Violation(t, "C20", rp, "the context ended during the write of record %d: %d results for %d requested records", cancelOn, len(results), len(targets))
		}
		b64 := base64.StdEncoding.EncodeToString(list)
		for _, r := range z.Records {
			if r.Value == before[r.ID] {
				continue
			}
			got, _ := echOf(r.Value)
			if !requested[r.ID] || got != b64 || strings.Join(withoutECH(r.Value), " ") != strings.Join(withoutECH(before[r.ID]), " ") {
				ev.Violation(t, "C20", rp, "record %s changed from %q to %q (requested=%v)", r.ID, before[r.ID], r.Value, requested[r.ID])
			}
		}
		rec.Case(fmt.Sprintf("cancel|%d|%d|%d", n, len(targets), cancelOn), true, []string{"context_ends_during_a_write"}, func() any {
			return map[string]any{"kind": "cancel_during_patch", "targets": len(targets), "cancel_on": cancelOn, "results": fmt.Sprintf("%+v", results)}
		})
	})
}
