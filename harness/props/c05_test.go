package props

import (
	"bytes"
	"context"
	"crypto/sha256"
	"crypto/tls"
	"errors"
	"fmt"
	"io"
	"net"
	"slices"
	"strings"
	"testing"
	"time"

	"pgregory.net/rapid"

	"verif/harness/ev"
	"verif/harness/hello"
	"verif/harness/wire"
)

var errStopHandshake = errors.New("stop")

// tlsExtract feeds a record stream to a crypto/tls server and returns the
// ClientHelloInfo it extracts (ok=false when crypto/tls refuses the hello).
func tlsExtract(stream []byte) (name string, protos []string, ok bool) {
	tr := wire.New(stream, io.EOF)
	cfg := &tls.Config{GetConfigForClient: func(chi *tls.ClientHelloInfo) (*tls.Config, error) {
		name, protos, ok = chi.ServerName, slices.Clone(chi.SupportedProtos), true
		return nil, errStopHandshake
	}}
	s := tls.Server(tr, cfg)
	s.SetDeadline(time.Now().Add(5 * time.Second))
	s.Handshake()
	return
}

// genRecords draws a stream of TLS records (types 20..23).
func genRecords(t *rapid.T, label string, max int) [][]byte {
	n := rapid.IntRange(0, max).Draw(t, label+"_n")
	var out [][]byte
	for i := 0; i < n; i++ {
		ct := byte(20 + rapid.IntRange(0, 3).Draw(t, label+"_ct"))
		var l int
		switch rapid.IntRange(0, 6).Draw(t, label+"_lc") {
		case 0:
			l = 1
		case 1:
			l = 16384
		case 2:
			l = 16383
		default:
			l = rapid.IntRange(1, 600).Draw(t, label+"_l")
		}
		out = append(out, hello.Record(ct, 0x0303, hello.GenBytes(t, label+"_b", l)))
	}
	return out
}

func TestC05(t *testing.T) {
	rec := ev.Get("C05")
	rec.Rule("syntactically valid ClientHellos without an acceptable ECH: no ECH / GREASE ECH (random or matching id and suite; enc usually 32 bytes, sometimes of a length or value the KEM refuses) / authentic ECH to a key the server lacks / ECH present but TLS 1.3 not offered / no extension block / empty block; sizes to 16 KiB; key sets none, unrelated, same-id; followed by 0..5 arbitrary records each way. Oracle: bytes read from Conn == bytes sent (record version of the hello excepted), bytes written reach the client unchanged, ServerName/ALPN == harness decoder == crypto/tls ClientHelloInfo. distinct = hello hash; non-trivial = unknown extension type, GREASE ECH or no TLS 1.3")
	rec.Mandatory("odd_legacy_version", "kind:no_ech", "kind:grease", "kind:grease_matching_id", "kind:foreign_key", "kind:no_tls13_with_ech", "kind:no_ext_block", "kind:empty_ext_block", "size_ge12k", "tls10_only", "keys:none", "keys:unrelated", "keys:same_id", "tls_oracle_used", "enc_unusable_for_kem", "no_tls13_high_legacy_version", "other_connection_accepted_before_first_read", "record_filled_to_the_limit", "payload_not_longer_than_a_tag")
	rapid.Check(t, func(t *rapid.T) {
		pub := hello.GenName(t, "public_name", 253)
		key := drawKey(t, "key", -1, pub)
		kind := []string{"no_ech", "grease", "grease_matching_id", "foreign_key", "no_tls13_with_ech", "no_ext_block", "empty_ext_block"}[uniform(t, "kind", 7)]
		big := rapid.IntRange(0, 7).Draw(t, "big") == 0
		var h *hello.Hello
		var cl0 []string
		suite := key.Suites[0]
		grease := func(id uint8, s hello.Suite) []byte {
			// enc: usually a plausible X25519 share; sometimes something the KEM refuses (wrong
			// length, the all-zero low-order point): still just an undecryptable extension.
			// (An empty enc is left out: it is the retry form and its handling on a first hello is
			// not pinned down by the draft.)
			enc := hello.GenBytes(t, "g_enc", 32)
			switch rapid.IntRange(0, 5).Draw(t, "g_enc_kind") {
			case 0:
				// other KEMs' shares: P-256/384/521 points, X-Wing / ML-KEM ciphertexts of 1088..1568 bytes
				enc = hello.GenBytes(t, "g_enc_odd", []int{1, 16, 31, 33, 48, 64, 65, 97, 133, 134, 1088, 1120, 1568}[uniform(t, "g_enc_len", 13)])
				cl0 = append(cl0, "enc_unusable_for_kem")
			case 1:
				enc = make([]byte, 32)
				cl0 = append(cl0, "enc_unusable_for_kem")
			}
			plen := rapid.IntRange(17, 400).Draw(t, "g_plen")
			if rapid.IntRange(0, 4).Draw(t, "g_short_payload") == 0 {
				plen = rapid.IntRange(1, 16).Draw(t, "g_plen_short") // shorter than, or exactly, an AEAD tag
				cl0 = append(cl0, "payload_not_longer_than_a_tag")
			}
			return hello.ECHOuterExt(s.KDF, s.AEAD, id, enc, hello.GenBytes(t, "g_payload", plen))
		}
		keysKind := []string{"none", "unrelated", "same_id"}[uniform(t, "keyskind", 3)]
		switch kind {
		case "no_ech":
			h = hello.GenPlain(t, "h", hello.PlainOpts{Big: big, NoTLS13: rapid.IntRange(0, 3).Draw(t, "low") == 0})
		case "grease":
			s := hello.Suite{KDF: uint16(rapid.IntRange(1, 3).Draw(t, "gk")), AEAD: uint16(rapid.IntRange(1, 3).Draw(t, "ga"))}
			h = hello.GenPlain(t, "h", hello.PlainOpts{Big: big, ECH: grease(uint8(rapid.IntRange(0, 255).Draw(t, "gid")), s)})
		case "grease_matching_id":
			h = hello.GenPlain(t, "h", hello.PlainOpts{Big: big, ECH: grease(key.ID, suite), ForceSNI: pub})
			keysKind = "same_id"
		case "foreign_key":
			// authentic ECH for a key the server does not hold
			sc := drawSealed(t, false)
			h, _ = hello.ParseMessage(sc.OuterMsg)
			if keysKind == "same_id" {
				key = drawKey(t, "key_sameid", int(sc.Key.ID), sc.Key.PublicName)
			}
		case "no_tls13_with_ech":
			// authentic payload to the server's own key, but the hello does not offer TLS 1.3
			o := hello.GenPlain(t, "h", hello.PlainOpts{NoTLS13: true, ECH: []byte{}, ForceSNI: pub})
			if rapid.IntRange(0, 2).Draw(t, "no13_legacy_version") == 0 {
				// legacy_version says nothing about TLS 1.3 (RFC 8446 4.2.1): only
				// supported_versions does, whatever the two legacy bytes hold
				o.Version = []uint16{0x0304, 0x0305, 0x7f1c, 0xffff, 0x0400}[uniform(t, "no13_lv", 5)]
				cl0 = append(cl0, "no_tls13_high_legacy_version")
			}
			sl, err := hello.NewSealer(key.Config, key.Priv.PublicKey().Bytes(), suite, key.ID)
			if err != nil {
				t.Fatalf("harness: %v", err)
			}
			in := hello.GenPlain(t, "hin", hello.PlainOpts{ECH: []byte{1}})
			if _, err := sl.SealOuter(o, hello.Encode(in, nil), true); err != nil {
				t.Fatalf("harness: %v", err)
			}
			h = o
			keysKind = "same_id"
		case "no_ext_block":
			h = hello.GenPlain(t, "h", hello.PlainOpts{NoExtKind: 1})
		case "empty_ext_block":
			h = hello.GenPlain(t, "h", hello.PlainOpts{NoExtKind: 2})
		}
		if kind != "foreign_key" && kind != "no_tls13_with_ech" && rapid.IntRange(0, 7).Draw(t, "odd_version") == 0 {
			// legacy_version is just two bytes for a pass-through: unusual values must survive too
			h.Version = rapid.SampledFrom([]uint16{0x0304, 0x0300, 0x7f1c, 0xfefd, 0x0a0a, 0xffff}).Draw(t, "odd_version_v")
			cl0 = append(cl0, "odd_legacy_version")
		}
		if (kind == "no_ech" || kind == "grease") && rapid.IntRange(0, 7).Draw(t, "exact_size") == 0 {
			// a hello that fills its record to the last bytes: 16384 - d bytes of handshake message
			want := 16384 - rapid.IntRange(0, 6).Draw(t, "below_limit")
			if cur := len(h.Message()); cur+4 <= want {
				pad := hello.Ext{Type: 21, Data: make([]byte, want-cur-4)}
				if n := len(h.Exts); n > 0 && h.Exts[n-1].Type == hello.ExtPSK {
					h.Exts = append(h.Exts[:n-1], pad, h.Exts[n-1])
				} else {
					h.Exts = append(h.Exts, pad)
				}
				if h.Find(21) >= 0 && len(h.Message()) == want {
					cl0 = append(cl0, "record_filled_to_the_limit")
				}
			}
		}
		msg := h.Message()
		if len(msg) > 16384 {
			t.Skip("too big")
		}
		var keys []*hello.Key
		switch keysKind {
		case "unrelated":
			keys = []*hello.Key{drawKey(t, "unrelated", int(key.ID)+1, "unrelated.example")}
		case "same_id":
			keys = []*hello.Key{key}
		}
		if len(keys) > 0 && rapid.IntRange(0, 3).Draw(t, "unloadable_key_in_set") == 0 {
			// the operator's key file also holds a key this library cannot load (a config for
			// DHKEM(P-256), which only X25519 builds lack) under a config id the hello does not
			// name: it is never a candidate, so it changes nothing
			helloID := -1
			for _, e := range h.Exts {
				if e.Type == hello.ExtECH && len(e.Data) >= 6 && e.Data[0] == 0 {
					helloID = int(e.Data[5])
				}
			}
			bad := *drawKey(t, "unloadable", (helloID+1+rapid.IntRange(0, 253).Draw(t, "unloadable_idoff"))%256, "p256.example")
			pub := append([]byte{4}, hello.GenBytes(t, "unloadable_pub", 64)...)
			bad.Config = hello.ConfigBytes(bad.ID, 0x0010, pub, bad.Suites, 28, []byte(bad.PublicName))
			if rapid.Bool().Draw(t, "unloadable_first") {
				keys = append([]*hello.Key{&bad}, keys...)
			} else {
				keys = append(keys, &bad)
			}
			cl0 = append(cl0, "unloadable_key_in_set")
		}
		recVer := rapid.SampledFrom([]uint16{0x0301, 0x0303}).Draw(t, "recver")
		first := hello.Record(22, recVer, msg)
		clientRecs := genRecords(t, "client", 5)
		backendRecs := genRecords(t, "backend", 5)
		stream := append([]byte{}, first...)
		for _, r := range clientRecs {
			stream = append(stream, r...)
		}
		sum := sha256.Sum256(msg)
		cl := append([]string{"kind:" + kind, "keys:" + keysKind}, cl0...)
		if len(msg) >= 12000 {
			cl = append(cl, "size_ge12k")
		}
		unknownExt := false
		for _, e := range h.Exts {
			if e.Type > 58 && e.Type != hello.ExtECH {
				unknownExt = true
			}
		}
		lowOnly := !h.OffersTLS13()
		if lowOnly && h.Version == 0x0301 {
			cl = append(cl, "tls10_only")
		}
		rp := map[string]any{"keys": keysReplay(keys), "client_stream": hx(stream), "expect": "passthrough_exact", "kind": kind, "want_server_name": h.SNI()}
		tr := wire.New(stream, io.EOF)
		// the client may fall silent for a while after the hello: the relay's idle timer (a read
		// deadline) fires, the relay extends it, and the stream goes on where it was
		idleAt := -1
		if firstLen := 5 + (int(stream[3])<<8 | int(stream[4])); len(stream) > firstLen && rapid.IntRange(0, 2).Draw(t, "client_idle") == 0 {
			idleAt = firstLen + uniform(t, "idle_at", len(stream)-firstLen)
			tr = wire.New(stream[:idleAt], nil)
			cl = append(cl, "idle_timeout_then_more")
		}
		withDebug = rapid.Bool().Draw(t, "with_debug")
		defer func() { withDebug = false }()
		if rapid.IntRange(0, 2).Draw(t, "server_builds_its_options_once") > 0 {
			defer reuseOptions()()
		}
		c, err := newConn(context.Background(), tr, echKeys(keys...))
		if err == nil && rapid.Bool().Draw(t, "other_connection_accepted_meanwhile") {
			// before the backend has read anything, the server accepts another connection
			// (other hello, same process): connections share nothing
			oh := hello.GenPlain(t, "other_hello", hello.PlainOpts{})
			guard(func() error {
				newConn(context.Background(), wire.New(hello.Record(22, 0x0303, oh.Message()), io.EOF), echKeys(keys...))
				return nil
			})
			cl = append(cl, "other_connection_accepted_before_first_read")
		}
		if err != nil {
			if kf, ok := ev.Known("C05", "no-extension-block-rejected"); ok && kind == "no_ext_block" {
				rec.KnownHit("no-extension-block-rejected", kf)
				return
			}
			ev.Violation(t, "C05", rp, "NewConn failed on a valid %s hello: %v", kind, err)
		}
		if c.ECHAccepted() {
			ev.Violation(t, "C05", rp, "ECH accepted for a %s hello", kind)
		}
		// interleave: backend writes between reads
		var got []byte
		buf := make([]byte, rapid.IntRange(1, 40000).Draw(t, "bufsize"))
		wi := 0
		var wrote []byte
		viaCopy := idleAt < 0 && rapid.IntRange(0, 3).Draw(t, "relay_with_io_copy") == 0
		if viaCopy {
			// the relay is io.Copy(backend, conn): it takes the Conn's io.WriterTo when it has
			// one, otherwise it calls Read with its own buffer - the backend gets the same bytes
			var sink bytes.Buffer
			var n64 int64
			e := guard(func() error { var e error; n64, e = io.Copy(&sink, c); return e })
			got = sink.Bytes()
			if e != nil || int(n64) != len(got) {
				ev.Violation(t, "C05", rp, "io.Copy(backend, conn) returned (%d, %v)", n64, e)
			}
			cl = append(cl, "relay_with_io_copy")
		}
		for !viaCopy {
			if wi < len(backendRecs) && rapid.Bool().Draw(t, "write_now") {
				b := backendRecs[wi]
				wi++
				var n int
				e := guard(func() error { var e error; n, e = c.Write(b); return e })
				if e != nil || n != len(b) {
					ev.Violation(t, "C05", rp, "Write of backend record %d returned (%d,%v)", wi-1, n, e)
				}
				wrote = append(wrote, b...)
				continue
			}
			if idleAt >= 0 && len(got) == idleAt {
				tr.SetReadDeadline(time.Now().Add(-time.Second))
				var n int
				e := guard(func() error { var e error; n, e = c.Read(buf); return e })
				var ne net.Error
				if n != 0 || !errors.As(e, &ne) || !ne.Timeout() {
					ev.Violation(t, "C05", rp, "Read with an expired read deadline and a silent client returned (%d, %v), want the transport's timeout", n, e)
				}
				tr.SetReadDeadline(time.Time{})
				tr.Feed(stream[idleAt:])
				tr.Finish(io.EOF)
				idleAt = -1
				continue
			}
			var n int
			e := guard(func() error { var e error; n, e = c.Read(buf); return e })
			got = append(got, buf[:n]...)
			if e == io.EOF {
				break
			}
			if e != nil {
				ev.Violation(t, "C05", rp, "Read failed after %d bytes: %v", len(got), e)
			}
		}
		for ; wi < len(backendRecs); wi++ {
			n, e := c.Write(backendRecs[wi])
			if e != nil || n != len(backendRecs[wi]) {
				ev.Violation(t, "C05", rp, "Write of backend record %d returned (%d,%v)", wi, n, e)
			}
			wrote = append(wrote, backendRecs[wi]...)
		}
		if len(got) != len(stream) || got[0] != stream[0] || !bytes.Equal(got[3:], stream[3:]) {
			d := 0
			for d < len(got) && d < len(stream) && (got[d] == stream[d] || d == 1 || d == 2) {
				d++
			}
			ev.Violation(t, "C05", map[string]any{"case": rp, "got": hx(got)}, "backend did not receive the client's bytes unchanged (%s hello; got %d bytes, sent %d, first difference at %d)", kind, len(got), len(stream), d)
		}
		w, _ := tr.Snapshot()
		if !bytes.Equal(w, wrote) {
			ev.Violation(t, "C05", rp, "client did not receive the backend's bytes unchanged (%d vs %d)", len(w), len(wrote))
		}
		// names (what an accessor returned earlier belongs to the caller, who may have edited it)
		if p := c.ALPNProtos(); len(p) > 0 {
			slices.Reverse(p)
			for i := range p {
				p[i] = strings.ToUpper(p[i]) + "-edited"
			}
		}
		if c.ServerName() != h.SNI() {
			ev.Violation(t, "C05", rp, "ServerName()=%q, harness decoder says %q", c.ServerName(), h.SNI())
		}
		if !slices.Equal(c.ALPNProtos(), h.ALPN()) && !(len(c.ALPNProtos()) == 0 && len(h.ALPN()) == 0) {
			ev.Violation(t, "C05", rp, "ALPNProtos()=%q, harness decoder says %q", c.ALPNProtos(), h.ALPN())
		}
		if name, protos, ok := tlsExtract(got); ok {
			cl = append(cl, "tls_oracle_used")
			if name != c.ServerName() || (!slices.Equal(protos, c.ALPNProtos()) && !(len(protos) == 0 && len(c.ALPNProtos()) == 0)) {
				ev.Violation(t, "C05", rp, "crypto/tls extracts (%q,%q) from the forwarded bytes, Conn reports (%q,%q)", name, protos, c.ServerName(), c.ALPNProtos())
			}
		} else {
			cl = append(cl, "tls_oracle_refused")
		}
		rec.Case(hx(sum[:8]), unknownExt || kind == "grease" || kind == "grease_matching_id" || lowOnly, cl, func() any {
			return map[string]any{"kind": kind, "keys": keysKind, "hello_len": len(msg), "layout": hello.Layout(h.Exts), "client_records": len(clientRecs), "backend_records": len(backendRecs)}
		})
		_ = fmt.Sprint
		_ = net.ErrClosed
	})
}
