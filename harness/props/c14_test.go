package props

import (
	"bytes"
	"context"
	"errors"
	"fmt"
	"net"
	"sort"
	"strings"
	"sync"
	"testing"
	"time"

	"github.com/c2FmZQ/ech"
	"github.com/c2FmZQ/ech/dns"
	"pgregory.net/rapid"

	"verif/harness/dnsfx"
	"verif/harness/ev"
)

var (
	zoneSrvOnce sync.Once
	zoneSrv     *dnsfx.Server
	zoneSrvMu   sync.Mutex
)

// withZoneServer runs f with the shared fake DoH server answering from z.
func withZoneServer(z *dnsfx.Zone, hook func(q dnsfx.Query, rcode int, ans []dnsfx.AnsRec), f func(url string, srv *dnsfx.Server)) {
	zoneSrvOnce.Do(func() {
		s, err := dnsfx.NewServer(func(dnsfx.Query) (int, []byte) { return 500, nil })
		if err != nil {
			panic(err)
		}
		zoneSrv = s
	})
	zoneSrvMu.Lock()
	defer zoneSrvMu.Unlock()
	zoneSrv.SetRespond(z.Responder(hook))
	zoneSrv.TakeLog()
	f(zoneSrv.URL, zoneSrv)
}

// zoneGen builds zones with unique data markers.
type zoneGen struct {
	t   *rapid.T
	z   *dnsfx.Zone
	n   int
	ttl func() uint32
	// self, when set, is the origin host name: a service record may name it as
	// its explicit target ("host HTTPS 1 host" instead of ".")
	self string
	huge bool // an address RRset of more than 32 KiB was generated
	// upper: service targets are written with upper-case letters (T1.Example)
	upper bool
	// bigECH: ech values of about 700 bytes
	bigECH bool
}

func (g *zoneGen) ip4() net.IP {
	g.n++
	return net.IP{10, byte(g.z.Version), byte(g.n >> 8), byte(g.n)}
}
func (g *zoneGen) ip6() net.IP {
	g.n++
	return net.IP{0x20, 1, 0xd, 0xb8, 0, 0, 0, 0, 0, 0, 0, byte(g.z.Version), 0, 0, byte(g.n >> 8), byte(g.n)}
}
func (g *zoneGen) echBytes(owner string) []byte {
	g.n++
	b := []byte(fmt.Sprintf("ECH:%s:v%d:%d", owner, g.z.Version, g.n))
	if g.bigECH {
		// a list of several configs (or post-quantum keys) makes the answer larger than the
		// 512 bytes of classic DNS: the marker repeated up to about 700 bytes
		b = bytes.Repeat(append(b, '|'), 700/(len(b)+1)+1)
	}
	return b
}

func (g *zoneGen) addrs(name, label string, min int) {
	t := g.t
	na := rapid.IntRange(min, 3).Draw(t, label+"_na")
	n6 := rapid.IntRange(0, 2).Draw(t, label+"_n6")
	for i := 0; i < na; i++ {
		g.z.A[name] = append(g.z.A[name], dnsfx.ZRec{TTL: g.ttl(), IP: g.ip4()})
	}
	if label == "hostaddr" && rapid.IntRange(0, 39).Draw(t, label+"_huge_rrset") == 0 {
		// a DoH answer is an HTTP body, not a UDP datagram: any DNS message size up
		// to 65535 bytes may arrive (16 bytes per compressed A record)
		ttl := g.ttl()
		for i, n := 0, rapid.IntRange(2050, 3900).Draw(t, label+"_huge_n"); i < n; i++ {
			g.z.A[name] = append(g.z.A[name], dnsfx.ZRec{TTL: ttl, IP: g.ip4()})
		}
		g.huge = true
	}
	for i := 0; i < n6; i++ {
		g.z.AAAA[name] = append(g.z.AAAA[name], dnsfx.ZRec{TTL: g.ttl(), IP: g.ip6()})
	}
}

// service adds a service-mode RRset at owner.
func (g *zoneGen) service(owner, label string) {
	t := g.t
	n := rapid.IntRange(1, 4).Draw(t, label+"_n")
	for i := 0; i < n; i++ {
		// SvcPriority is a 16-bit number: mostly small, sometimes from the far end of the range
		h := dns.HTTPS{Priority: uint16(rapid.SampledFrom([]int{1, 1, 2, 2, 3, 3, 1, 2, 3, 32767, 32768, 40000, 65535}).Draw(t, label+"_prio"))}
		tk := rapid.IntRange(0, 3).Draw(t, label+"_target")
		if g.self != "" && rapid.IntRange(0, 5).Draw(t, label+"_target_self") == 0 {
			tk = 4
		}
		switch tk {
		case 4:
			h.Target = g.self
		case 1:
			h.Target = "t1.example"
		case 2:
			h.Target = "t2.example"
		case 3:
			h.Target = "t3-noaddr.example"
		}
		if g.upper && tk >= 1 && tk <= 3 {
			// a TargetName is spelled however the zone file spelled it (case is preserved on the wire)
			h.Target = strings.ToUpper(h.Target[:1]) + h.Target[1:len(h.Target)-7] + "Example"
		}
		if rapid.Bool().Draw(t, label+"_port") {
			h.Port = uint16(rapid.SampledFrom([]int{443, 8443, 9443}).Draw(t, label+"_portv"))
		}
		for j, k := 0, rapid.IntRange(0, 3).Draw(t, label+"_nalpn"); j < k; j++ {
			h.ALPN = append(h.ALPN, rapid.SampledFrom([]string{"h2", "h3", "http/1.1"}).Draw(t, label+"_alpn"))
		}
		h.NoDefaultALPN = len(h.ALPN) > 0 && rapid.IntRange(0, 3).Draw(t, label+"_nda") == 0
		if rapid.Bool().Draw(t, label+"_ech") {
			h.ECH = g.echBytes(owner)
		}
		if rapid.IntRange(0, 3).Draw(t, label+"_hint") == 0 {
			h.IPv4Hint = []net.IP{g.ip4()}
		}
		g.z.HTTPS[owner] = append(g.z.HTTPS[owner], dnsfx.ZRec{TTL: g.ttl(), HTTPS: h, Mandatory: rapid.IntRange(0, 3).Draw(t, label+"_mandatory") == 0})
	}
}

var c14Schemes = []string{"https", "http", "HTTPS", "Http", "foo", "dot", "wss", strings.Repeat("s", 62), strings.Repeat("t", 61)}

// genInput draws a name argument for host; returns the input and a class label.
func genInput(t *rapid.T, host string) (string, string) {
	port := rapid.SampledFrom([]int{-1, -1, 0, 80, 443, 8443, 1234}).Draw(t, "in_port")
	hp := host
	if strings.Contains(host, ":") {
		hp = "[" + host + "]"
	}
	withPort := hp
	if port >= 0 {
		withPort = fmt.Sprintf("%s:%d", hp, port)
		if port > 0 && rapid.IntRange(0, 5).Draw(t, "port_leading_zeros") == 0 {
			// RFC 3986: port = *DIGIT; "08443" is port 8443
			withPort = fmt.Sprintf("%s:%s%d", hp, []string{"0", "00", "000"}[rapid.IntRange(0, 2).Draw(t, "port_zeros")], port)
		}
	} else if strings.Contains(host, ":") && rapid.Bool().Draw(t, "bare_v6") {
		withPort = host
	}
	switch rapid.IntRange(0, 3).Draw(t, "in_form") {
	case 0, 1:
		if port >= 0 {
			return withPort, "form:host_port"
		}
		return withPort, "form:host"
	default:
		scheme := c14Schemes[rapid.IntRange(0, len(c14Schemes)-1).Draw(t, "in_scheme")]
		path := ""
		if rapid.Bool().Draw(t, "in_path") {
			path = "/some/path?q=1"
		}
		if port < 0 && strings.Contains(host, ":") {
			withPort = hp
		}
		return scheme + "://" + withPort + path, "form:uri"
	}
}

func sortedStrings(s []string) []string { c := append([]string{}, s...); sort.Strings(c); return c }

// compareOutcome returns "" if the result matches the expected outcome.
func compareOutcome(res ech.ResolveResult, err error, want dnsfx.RefOutcome) string {
	if want.Err != "" {
		if err == nil {
			return fmt.Sprintf("no error, expected %s", want.Err)
		}
		if strings.HasPrefix(want.Err, "rcode:") {
			var rc int
			fmt.Sscanf(want.Err, "rcode:%d", &rc)
			m := map[int]error{1: ech.ErrFormatError, 2: ech.ErrServerFailure, 3: ech.ErrNonExistentDomain, 4: ech.ErrNotImplemented, 5: ech.ErrQueryRefused}
			if e, ok := m[rc]; ok && !errors.Is(err, e) {
				return fmt.Sprintf("error %q is not the documented error for RCODE %d", err, rc)
			}
		}
		return ""
	}
	if err != nil {
		return fmt.Sprintf("unexpected error %v", err)
	}
	if res.Port != want.Port {
		return fmt.Sprintf("Port=%d want %d", res.Port, want.Port)
	}
	var addr []string
	for _, a := range res.Address {
		addr = append(addr, a.String())
	}
	if fmt.Sprint(sortedStrings(addr)) != fmt.Sprint(sortedStrings(want.Address)) {
		return fmt.Sprintf("Address=%v want %v", addr, want.Address)
	}
	if len(res.HTTPS) != len(want.HTTPS) {
		return fmt.Sprintf("%d HTTPS records, want %d", len(res.HTTPS), len(want.HTTPS))
	}
	var gh, wh []string
	for i, h := range res.HTTPS {
		if i > 0 && res.HTTPS[i-1].Priority > h.Priority {
			return fmt.Sprintf("HTTPS records not ordered by priority: %d before %d", res.HTTPS[i-1].Priority, h.Priority)
		}
		gh = append(gh, dnsfx.CanonData(h))
		wh = append(wh, dnsfx.CanonData(want.HTTPS[i]))
	}
	if fmt.Sprint(sortedStrings(gh)) != fmt.Sprint(sortedStrings(wh)) {
		return fmt.Sprintf("HTTPS records differ:\n got %v\nwant %v", gh, wh)
	}
	keys := map[string]bool{}
	for k := range res.Additional {
		keys[k] = true
	}
	for k := range want.Additional {
		keys[k] = true
	}
	for k := range keys {
		var g []string
		for _, a := range res.Additional[k] {
			g = append(g, a.String())
		}
		if fmt.Sprint(sortedStrings(g)) != fmt.Sprint(sortedStrings(want.Additional[k])) {
			return fmt.Sprintf("Additional[%q]=%v want %v", k, g, want.Additional[k])
		}
	}
	return ""
}

func TestC14(t *testing.T) {
	rec := ev.Get("C14")
	rec.Rule("random zones served by a loopback DoH server that answers like a recursive resolver (CNAME chain first, packets built with dnsmessage): host with A/AAAA (directly or through CNAME chains), at the RFC 9460 query name either nothing, NXDOMAIN, a service RRset (1..4 records, equal/distinct priorities, targets with/without addresses, ports, ALPN, ECH markers), or an alias chain of 0..8 links (loops, self alias, alias to '.', alias to a name with only addresses) optionally behind a CNAME; forced RCODEs 1..5 and 6..23 and HTTP 4xx on single (name,type) pairs; poison records (HTTPS with attacker ECH, A, AAAA, CNAME) owned by an unrelated name in every answer. Name forms: host, host:port (0/80/443/other), scheme://host[:port][/path] (http/https/other, mixed case), IP literals, localhost, over-long hosts, labels, schemes and constructed names. Oracle: reference resolver over the zone (RFC 9460 2.3/2.4.2/3), poison markers absent, query log (types, RFC-conformant names from the allowed set, count bound). distinct = (zone shape, name form); non-trivial = zone has HTTPS records or a CNAME for the queried name")
	rec.Mandatory("longest_valid_host", "alias_loop", "alias_chain_gt_limit", "poison", "rcode:1", "rcode:2", "rcode:3", "rcode:4", "rcode:5", "port_non443_other_scheme", "overlong_scheme", "overlong_constructed", "overlong_host", "ip_literal", "service_with_targets", "cname_to_https", "nxdomain_https", "service_targets_origin_host", "host_with_trailing_dot", "repeated_on_caching_resolver", "answer_gt_32k", "cname_loop_in_answer")
	rapid.Check(t, func(t *rapid.T) {
		var cl []string
		host := "svc.example"
		kind := uniform(t, "hostkind", 16)
		expectInvalid := false
		switch kind {
		case 0:
			host = rapid.SampledFrom([]string{"192.0.2.7", "2001:db8::7", "localhost", "::1"}).Draw(t, "literal")
			cl = append(cl, "ip_literal")
		case 1: // over-long host or label (boundaries included: label of 64, name of 254)
			switch rapid.IntRange(0, 2).Draw(t, "longkind") {
			case 0:
				host = strings.Repeat("a", rapid.SampledFrom([]int{64, 65, 100, 255, 300}).Draw(t, "labellen")) + ".example"
			case 1:
				host = strings.Repeat("abcdefgh.", rapid.IntRange(29, 400).Draw(t, "reps")) + "example"
			default:
				host = strings.Repeat("abcdefgh.", 27) + "abc.example" // 243 + 11 = 254 characters
			}
			cl = append(cl, "overlong_host")
			expectInvalid = true
		case 4: // longest valid shapes: a 63-byte label, a 253-character name
			if rapid.Bool().Draw(t, "maxlabel") {
				host = strings.Repeat("a", 63) + ".example"
			} else {
				host = strings.Repeat("abcdefgh.", 27) + "ab.example" // 243 + 10 = 253 characters
			}
			cl = append(cl, "longest_valid_host")
		}
		inputHost := host
		if kind > 4 && rapid.IntRange(0, 4).Draw(t, "absolute_host") == 0 {
			inputHost = host + "." // fully qualified spelling of the same name
			cl = append(cl, "host_with_trailing_dot")
		}
		input, form := genInput(t, inputHost)
		cl = append(cl, form)
		if kind == 2 { // over-long scheme
			input = strings.Repeat("s", rapid.SampledFrom([]int{63, 64, 65, 100, 255, 300, 400}).Draw(t, "schemelen")) + "://" + host + ":8443"
			cl = append(cl, "overlong_scheme")
			expectInvalid = true
		}
		if kind == 3 { // host valid, constructed name too long
			host = strings.Repeat("abcdefgh.", 27) + "example" // 250 bytes
			input = "https://" + host + ":8443"
			cl = append(cl, "overlong_constructed")
			expectInvalid = true
		}
		p := dnsfx.ParseInput(input)
		z := dnsfx.NewZone()
		g := &zoneGen{t: t, z: z, ttl: func() uint32 { return 60 }, self: host}
		if g.upper = rapid.IntRange(0, 3).Draw(t, "upper_case_targets") == 0; g.upper {
			cl = append(cl, "upper_case_target_names")
		}
		svcb := host
		if !expectInvalid && kind != 0 {
			if p.Port != 80 && p.Port != 443 {
				svcb = fmt.Sprintf("_%d._%s.%s", p.Port, p.Scheme, p.Host)
				if p.Scheme != "https" {
					cl = append(cl, "port_non443_other_scheme")
				}
			} else if p.Scheme != "https" {
				svcb = fmt.Sprintf("_%s.%s", p.Scheme, p.Host)
			}
			// host addresses, possibly behind a CNAME chain
			if rapid.IntRange(0, 3).Draw(t, "host_cname") == 0 {
				n := rapid.IntRange(1, 3).Draw(t, "host_cname_n")
				cur := host
				for i := 0; i < n; i++ {
					next := fmt.Sprintf("c%d.example", i)
					z.CNAME[cur] = dnsfx.ZRec{TTL: 60, CNAME: next}
					cur = next
				}
				if rapid.IntRange(0, 5).Draw(t, "host_cname_loop") == 0 {
					// a misconfigured zone: the chain leads back into itself, and the recursive
					// resolver hands over the CNAME records it walked, with no data behind them
					back := []string{host, cur}[rapid.IntRange(0, 1).Draw(t, "host_cname_loop_to")]
					z.CNAME[cur] = dnsfx.ZRec{TTL: 60, CNAME: back}
					cl = append(cl, "cname_loop_in_answer")
				} else {
					g.addrs(cur, "hostaddr", 0)
				}
				cl = append(cl, "cname_to_address")
			} else {
				g.addrs(host, "hostaddr", 0)
			}
			if g.huge {
				cl = append(cl, "answer_gt_32k", "cname_loop_in_answer")
			}
			g.addrs("t1.example", "t1", 1)
			if rapid.Bool().Draw(t, "t2_has") {
				g.addrs("t2.example", "t2", 0)
			}
			// what lives at the SVCB query name
			owner := svcb
			switch rapid.IntRange(0, 6).Draw(t, "svcb_kind") {
			case 0: // nothing
				if !z.Exists(svcb) {
					cl = append(cl, "nxdomain_https")
				}
			case 1, 2:
				if rapid.IntRange(0, 3).Draw(t, "svcb_cname") == 0 && svcb != host {
					z.CNAME[svcb] = dnsfx.ZRec{TTL: 60, CNAME: "https-holder.example"}
					owner = "https-holder.example"
					cl = append(cl, "cname_to_https")
				}
				g.service(owner, "svc")
				cl = append(cl, "service")
			default: // alias chain
				n := rapid.IntRange(1, 8).Draw(t, "alias_n")
				end := rapid.IntRange(0, 5).Draw(t, "alias_end")
				cur := svcb
				for i := 0; i < n; i++ {
					next := fmt.Sprintf("alias%d.example", i)
					if i == n-1 && end >= 2 && end <= 3 && svcb != host && rapid.IntRange(0, 2).Draw(t, "alias_to_bare_host") == 0 {
						// _port._scheme.host aliased to the bare host, which publishes the service
						// records: not a loop (the bare host's HTTPS name was not queried before)
						next = host
						cl = append(cl, "alias_to_bare_host")
					} else if i == n-1 {
						switch end {
						case 0: // loop back
							next = []string{svcb, "alias0.example", cur}[rapid.IntRange(0, 2).Draw(t, "loop_to")]
							if n == 1 && next == "alias0.example" {
								next = svcb
							}
						case 1: // alias to "."
							next = ""
						}
					}
					z.HTTPS[cur] = []dnsfx.ZRec{{TTL: 60, HTTPS: dns.HTTPS{Priority: 0, Target: next}}}
					if next == "" {
						break
					}
					cur = next
				}
				switch end {
				case 2, 3:
					g.service(cur, "aliassvc")
					g.addrs(cur, "aliasaddr", 0)
				case 4:
					g.addrs(cur, "aliasonlyaddr", 1)
				}
				cl = append(cl, "alias")
			}
			// forced failures
			if rapid.IntRange(0, 3).Draw(t, "fail") == 0 {
				names := []string{svcb, host, "t1.example", "alias0.example"}
				name := names[rapid.IntRange(0, len(names)-1).Draw(t, "fail_name")]
				typ := []uint16{65, 1, 28}[rapid.IntRange(0, 2).Draw(t, "fail_type")]
				if rapid.IntRange(0, 5).Draw(t, "fail_http") == 0 {
					z.HTTPErr[dnsfx.Key(name, typ)] = rapid.SampledFrom([]int{400, 403, 404}).Draw(t, "http_status")
					cl = append(cl, "http_error")
				} else {
					rc := rapid.SampledFrom([]int{1, 2, 3, 4, 5, 6, 9, 16, 23}).Draw(t, "fail_rcode")
					z.RCode[dnsfx.Key(name, typ)] = rc
					if rc <= 5 {
						cl = append(cl, fmt.Sprintf("rcode:%d", rc))
					} else {
						cl = append(cl, "rcode:other")
					}
				}
			}
			// poison
			if rapid.Bool().Draw(t, "poison") {
				z.Poison = []dnsfx.PoisonRec{
					{Owner: "evil.example", Type: 65, Rec: dnsfx.ZRec{TTL: 60, HTTPS: dns.HTTPS{Priority: 1, ECH: []byte("POISON-ECH"), ALPN: []string{"h2"}}}},
					{Owner: "evil.example", Type: 1, Rec: dnsfx.ZRec{TTL: 60, IP: net.IP{203, 0, 113, 66}}},
					{Owner: "evil.example", Type: 28, Rec: dnsfx.ZRec{TTL: 60, IP: net.ParseIP("2001:db8:bad::66")}},
				}
				if rapid.Bool().Draw(t, "poison_cname") {
					z.Poison = append(z.Poison, dnsfx.PoisonRec{Owner: "evil.example", Type: 5, Rec: dnsfx.ZRec{TTL: 60, CNAME: "t1.example"}})
				}
				if rapid.Bool().Draw(t, "poison_lookalike_owner") {
					// owners that differ from the asked name only by a character Unicode case folding
					// maps onto an ASCII letter (U+017F long s, U+212A Kelvin sign): DNS compares
					// octets with ASCII case only (RFC 4343), these are other names
					for i := range z.Poison {
						z.Poison[i].Owner = "$LOOKALIKE"
					}
					cl = append(cl, "poison_lookalike_owner")
				}
				z.PoisonFirst = rapid.Bool().Draw(t, "poison_first")
				cl = append(cl, "poison")
			}
		}
		want := dnsfx.RefResolve(z, input)
		if expectInvalid && want.Err == "" {
			t.Fatalf("harness: reference accepts an over-long input %q", input[:min(len(input), 80)])
		}
		if want.AliasLoop {
			cl = append(cl, "alias_loop")
		}
		if want.AliasDepth > 2 {
			cl = append(cl, "alias_chain_gt_limit")
		}
		if len(want.Additional) > 0 {
			cl = append(cl, "service_with_targets")
		}
		if _, ok := want.Additional[want.Host]; ok && want.Err == "" {
			cl = append(cl, "service_targets_origin_host")
		}
		var res ech.ResolveResult
		var rerr error
		var log []dnsfx.Query
		repeatCached := rapid.IntRange(0, 2).Draw(t, "repeat_with_cache") == 0
		repeatDiff := ""
		if repeatCached {
			cl = append(cl, "repeated_on_caching_resolver")
		}
		withZoneServer(z, nil, func(url string, srv *dnsfx.Server) {
			r, err := ech.NewResolver(url)
			if err != nil {
				t.Fatalf("harness: %v", err)
			}
			if !repeatCached {
				r.SetCacheSize(0)
			}
			ctx, cancel := context.WithTimeout(context.Background(), 30*time.Second)
			defer cancel()
			watch("C14", map[string]any{"input": input, "zone": z.Describe()}, func() {
				rerr = guard(func() error { var e error; res, e = r.Resolve(ctx, input); return e })
			})
			log = srv.TakeLog()
			if repeatCached {
				// the zone does not change and no time passes: asking again (answers and
				// failures now possibly remembered) gives the same outcome every time
				errKey := func(e error) string {
					if e == nil {
						return "no error"
					}
					for _, s := range []error{ech.ErrInvalidName, ech.ErrFormatError, ech.ErrServerFailure, ech.ErrNonExistentDomain, ech.ErrNotImplemented, ech.ErrQueryRefused} {
						if errors.Is(e, s) {
							return "error: " + s.Error()
						}
					}
					return "error (other)" // which sub-lookup reported it may differ once answers are cached
				}
				first := fmt.Sprintf("%+v|%s", res, errKey(rerr))
				for i := 2; i <= 4; i++ {
					var res2 ech.ResolveResult
					e2 := guard(func() error { var e error; res2, e = r.Resolve(ctx, input); return e })
					if again := fmt.Sprintf("%+v|%s", res2, errKey(e2)); again != first {
						repeatDiff = fmt.Sprintf("call %d of Resolve(%q) on the same resolver returned %s, the first call returned %s", i, input[:min(len(input), 100)], again, first)
						break
					}
				}
				srv.TakeLog()
			}
		})
		if repeatDiff != "" {
			ev.Violation(t, "C14", map[string]any{"input": input, "zone": z.Describe()}, "%s", repeatDiff)
		}
		rp := map[string]any{"input": input, "zone": z.Describe(), "expected": fmt.Sprintf("%+v", want)}
		var ql []string
		for _, q := range log {
			ql = append(ql, fmt.Sprintf("%s|%d valid=%v %s", q.Name, q.Type, q.Valid, q.Err))
		}
		rp["queries"] = ql
		if isPanic(rerr) {
			ev.Violation(t, "C14", rp, "Resolve(%q) panicked: %v", input[:min(len(input), 100)], rerr)
		}
		// query log
		for _, q := range log {
			if !q.Valid {
				ev.Violation(t, "C14", rp, "Resolve sent a malformed DNS query (%s)", q.Err)
			}
			tn := map[uint16]string{1: "A", 28: "AAAA", 65: "HTTPS"}[q.Type]
			if tn == "" {
				ev.Violation(t, "C14", rp, "query of type %d for %q", q.Type, q.Name)
			}
			if len(q.Name) > 253 {
				ev.Violation(t, "C14", rp, "query name of %d bytes", len(q.Name))
			}
			for _, l := range strings.Split(q.Name, ".") {
				if len(l) == 0 || len(l) > 63 {
					ev.Violation(t, "C14", rp, "query name %q has a label of %d bytes", q.Name, len(l))
				}
			}
			if !want.Allowed[strings.ToLower(q.Name)+"|"+tn] {
				ev.Violation(t, "C14", rp, "query %s %s is not one RFC 9460 resolution of %q would send (allowed: %v)", q.Name, tn, input, dnsfx.SortedKeys(want.Allowed))
			}
		}
		if want.NoQuery && len(log) > 0 {
			ev.Violation(t, "C14", rp, "%d DNS queries sent for %q, none expected", len(log), input[:min(len(input), 100)])
		}
		if len(log) > want.MaxQueries+2 {
			ev.Violation(t, "C14", rp, "%d queries, bound %d", len(log), want.MaxQueries+2)
		}
		// poison scan
		scan := func(ip net.IP) {
			if ip.Equal(net.IP{203, 0, 113, 66}) || ip.Equal(net.ParseIP("2001:db8:bad::66")) {
				ev.Violation(t, "C14", rp, "result uses address %v, which belongs to an unrelated owner name", ip)
			}
		}
		for _, a := range res.Address {
			scan(a)
		}
		for _, l := range res.Additional {
			for _, a := range l {
				scan(a)
			}
		}
		for _, h := range res.HTTPS {
			if string(h.ECH) == "POISON-ECH" {
				ev.Violation(t, "C14", rp, "result uses the ECH config of an HTTPS record owned by an unrelated name")
			}
		}
		// outcome
		d := compareOutcome(res, rerr, want)
		if d != "" && want.Alt != nil {
			if d2 := compareOutcome(res, rerr, *want.Alt); d2 == "" {
				d = ""
				cl = append(cl, "alt_outcome")
			}
		}
		if d != "" {
			ev.Violation(t, "C14", rp, "Resolve(%q): %s", input[:min(len(input), 100)], d)
		}
		nontrivial := len(z.HTTPS) > 0 || len(z.CNAME) > 0
		rec.Case(fmt.Sprintf("%v|%s", z.Describe(), input), nontrivial, cl, func() any {
			return map[string]any{"input": input[:min(len(input), 120)], "zone": z.Describe(), "queries": ql, "err": fmt.Sprint(rerr)}
		})
	})
}

// TestC14Mixed: RRsets that hold alias-mode and service-mode records side by side, in
// any order (zones should not, RFC 9460 2.4.2, but resolvers meet them). Which
// reading an implementation takes is not judged here; what is: the reading does not
// depend on whether the answer came from upstream or from the resolver's cache.
func TestC14Mixed(t *testing.T) {
	rec := ev.Get("C14")
	rapid.Check(t, func(t *rapid.T) {
		z := dnsfx.NewZone()
		z.Version = 1
		g := &zoneGen{t: t, z: z, ttl: func() uint32 { return 300 }}
		host := "mixed.example"
		g.addrs(host, "hosta", 1)
		g.addrs("t1.example", "t1", 1)
		g.addrs("t2.example", "t2", 1)
		g.addrs("alias-target.example", "ata", 1)
		g.service(host, "svc")
		g.service("alias-target.example", "asvc")
		alias := dnsfx.ZRec{TTL: 300, HTTPS: dns.HTTPS{Priority: 0, Target: "alias-target.example"}}
		pos := rapid.IntRange(0, len(z.HTTPS[host])).Draw(t, "alias_pos")
		l := append([]dnsfx.ZRec{}, z.HTTPS[host][:pos]...)
		l = append(l, alias)
		z.HTTPS[host] = append(l, z.HTTPS[host][pos:]...)
		input := rapid.SampledFrom([]string{host, host + ":443", "https://" + host + "/x"}).Draw(t, "input")
		rp := map[string]any{"zone": z.Describe(), "input": input, "alias_pos": pos}
		outcome := func(res ech.ResolveResult, e error) string {
			if isPanic(e) {
				ev.Violation(t, "C14", rp, "Resolve panicked: %v", e)
			}
			if e != nil {
				return "error"
			}
			return fmt.Sprintf("%+v", res)
		}
		var outs []string
		withZoneServer(z, nil, func(url string, srv *dnsfx.Server) {
			ctx, cancel := context.WithTimeout(context.Background(), 30*time.Second)
			defer cancel()
			fresh, err := ech.NewResolver(url)
			if err != nil {
				t.Fatalf("harness: %v", err)
			}
			fresh.SetCacheSize(0)
			var res ech.ResolveResult
			e := guard(func() error { var e error; res, e = fresh.Resolve(ctx, input); return e })
			outs = append(outs, outcome(res, e))
			caching, _ := ech.NewResolver(url)
			for i := 0; i < 3; i++ {
				e := guard(func() error { var e error; res, e = caching.Resolve(ctx, input); return e })
				outs = append(outs, outcome(res, e))
			}
		})
		for i := 1; i < len(outs); i++ {
			if outs[i] != outs[0] {
				ev.Violation(t, "C14", rp, "the same unchanged zone resolves differently: call %d on a caching resolver gives %s, a resolver without cache gives %s", i, outs[i], outs[0])
			}
		}
		rec.Case(fmt.Sprintf("mixed|%v|%d|%s", z.Describe(), pos, input), true, []string{"mixed_alias_and_service_rrset"}, func() any {
			return map[string]any{"kind": "mixed_rrset", "alias_pos": pos, "input": input, "outcome": outs[0][:min(len(outs[0]), 200)]}
		})
	})
}
