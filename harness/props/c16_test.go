//go:build verif

package props

import (
	"context"
	"fmt"
	"net"
	"runtime"
	"sort"
	"strings"
	"sync"
	"sync/atomic"
	"testing"
	"time"

	"github.com/c2FmZQ/ech"
	"github.com/c2FmZQ/ech/dns"
	"pgregory.net/rapid"

	"verif/harness/dnsfx"
	"verif/harness/ev"
)

// c16Resp is one upstream response as logged by the fake server.
type c16Resp struct {
	Key   string
	T     time.Time
	RCode int // 0 ok, >0 rcode, <0 http status
	Ans   []dnsfx.AnsRec
}

// c16Entry is the reference cache entry.
type c16Entry struct {
	Exp  time.Time
	Data []dnsfx.AnsRec // records of the queried type
}

func minTTL(ans []dnsfx.AnsRec) (uint32, bool) {
	if len(ans) == 0 {
		return 300, true // documented negative TTL
	}
	m := ans[0].Rec.TTL
	for _, a := range ans {
		if a.Rec.TTL < m {
			m = a.Rec.TTL
		}
	}
	return m, m > 0
}

var c16Names = []string{"n1.example", "n2.example", "n3.example"}

// heldResult is a ResolveResult a caller kept, with its rendering at the time it was returned.
type heldResult struct {
	name string
	res  ech.ResolveResult
	snap string
}

func TestC16(t *testing.T) {
	rec := ev.Get("C16")
	rec.Rule("state machine: fresh Resolver (default cache) against the versioned fake DoH server, package clock replaced through the verif hook. Actions: resolve(one of 3 names), advance the clock (0, 1 s, to an entry's expiry -1/0/+1 s, 299/300/301 s), mutate the zone (new version stamped into every datum; per-record TTLs 0..600 in drawn order; shapes: service RRset with/without target, none, CNAME-only answer, NXDOMAIN), switch an upstream failure (SERVFAIL/REFUSED/HTTP 400) on or off for a (name,type). Reference cache model from the property: an answer is reusable while now < fetch time + min TTL over its answer records (300 s for an empty answer, 0 = not cacheable), failures are never cached. Oracle after every resolve: upstream queries sent == queries the model predicts (no more: served from cache within TTL; no fewer: never stale, failures not cached) and result == model result (every datum carries its zone version). distinct = action-kind sequence; non-trivial = a resolve after an advance >= 1 s")
	rec.Mandatory("ttl0_first", "ttl0_last", "expiry_minus1", "expiry_exact", "expiry_plus1", "failure_then_recovery", "cname_only_answer", "cache_hit", "refetch_after_expiry", "zone_mutated", "clock_advances_during_resolve")
	rapid.Check(t, func(t *rapid.T) {
		z := dnsfx.NewZone()
		// the clock is not aligned to whole seconds (expiry arithmetic must not round)
		frac := time.Duration(rapid.SampledFrom([]int{0, 1, 250, 499, 500, 501, 750, 999}).Draw(t, "clock_ms")) * time.Millisecond
		now := time.Date(2030, 1, 1, 0, 0, 0, 0, time.UTC).Add(frac)
		var clockMu sync.Mutex
		clock := func() time.Time { clockMu.Lock(); defer clockMu.Unlock(); return now }
		ech.SetTimeNowForVerif(clock)
		defer ech.SetTimeNowForVerif(nil)
		g := &zoneGen{t: t, z: z}
		var cl []string
		var held []heldResult
		if g.bigECH = rapid.IntRange(0, 2).Draw(t, "answers_larger_than_512_bytes") == 0; g.bigECH {
			cl = append(cl, "answers_gt_512_bytes")
		}
		ttlMode := 0
		g.ttl = func() uint32 {
			switch ttlMode {
			case 1:
				return 0
			case 2:
				return uint32(rapid.SampledFrom([]int{1, 5, 30, 60, 300, 600}).Draw(t, "ttl_pos"))
			}
			return uint32(rapid.SampledFrom([]int{0, 1, 5, 30, 60, 300, 600}).Draw(t, "ttl"))
		}
		populate := func() {
			z.Lock()
			defer z.Unlock()
			z.Version++
			z.A, z.AAAA, z.CNAME, z.HTTPS = map[string][]dnsfx.ZRec{}, map[string][]dnsfx.ZRec{}, map[string]dnsfx.ZRec{}, map[string][]dnsfx.ZRec{}
			for _, n := range c16Names {
				switch rapid.IntRange(0, 6).Draw(t, "shape_"+n) {
				case 0: // nothing at all: NXDOMAIN
				case 1: // CNAME-only answers: the alias target has no data
					z.CNAME[n] = dnsfx.ZRec{TTL: uint32(rapid.SampledFrom([]int{1, 5, 30}).Draw(t, "cname_ttl")), CNAME: "empty-target.example"}
					cl = append(cl, "cname_only_answer")
				case 2: // addresses only
					g.addrs(n, "a_"+n, 1)
				default:
					g.addrs(n, "a_"+n, 0)
					g.service(n, "svc_"+n)
					// first / last record with TTL 0
					switch rapid.IntRange(0, 5).Draw(t, "ttl0_"+n) {
					case 0:
						l := z.HTTPS[n]
						if len(l) >= 2 {
							l[0].TTL = 0
							l[len(l)-1].TTL = 300
							cl = append(cl, "ttl0_first")
						}
					case 1:
						l := z.HTTPS[n]
						if len(l) >= 2 {
							l[0].TTL = 300
							l[len(l)-1].TTL = 0
							cl = append(cl, "ttl0_last")
						}
					}
				}
			}
			g.addrs("t1.example", "t1", 1)
			g.addrs("t2.example", "t2", 0)
		}
		populate()
		var logMu sync.Mutex
		var respLog []c16Resp
		// time may pass while an upstream query is in flight: every query served advances
		// the clock by step (0 in most resolves) before the response leaves the server
		var step time.Duration
		hook := func(q dnsfx.Query, rcode int, ans []dnsfx.AnsRec) {
			logMu.Lock()
			respLog = append(respLog, c16Resp{Key: dnsfx.Key(q.Name, q.Type), T: clock(), RCode: rcode, Ans: ans})
			logMu.Unlock()
			clockMu.Lock()
			now = now.Add(step)
			clockMu.Unlock()
		}
		cache := map[string]c16Entry{}
		// modelLookup returns (records of the type, rcode, upstream?) and updates the model cache.
		var predicted []string
		var mnow time.Time // the model's clock within one resolve
		modelLookup := func(name string, typ uint16) ([]dnsfx.ZRec, int) {
			key := dnsfx.Key(name, typ)
			if e, ok := cache[key]; ok && mnow.Before(e.Exp) {
				var out []dnsfx.ZRec
				for _, a := range e.Data {
					out = append(out, a.Rec)
				}
				return out, 0
			}
			predicted = append(predicted, key)
			mnow = mnow.Add(step) // the answer arrives step later than the query left
			if st, ok := z.HTTPErr[key]; ok {
				delete(cache, key)
				return nil, -st
			}
			rc, ans := z.Answer(name, typ)
			if rc != 0 {
				delete(cache, key)
				return nil, rc
			}
			var data []dnsfx.AnsRec
			for _, a := range ans {
				if a.Type == typ {
					data = append(data, a)
				}
			}
			m, cacheable := minTTL(ans)
			if cacheable {
				cache[key] = c16Entry{Exp: mnow.Add(time.Duration(m) * time.Second), Data: data}
			} else {
				delete(cache, key)
			}
			var out []dnsfx.ZRec
			for _, a := range data {
				out = append(out, a.Rec)
			}
			return out, 0
		}
		// modelResolve mirrors the documented resolution for a plain host name.
		modelResolve := func(name string) dnsfx.RefOutcome {
			out := dnsfx.RefOutcome{Port: 443}
			https, rc := modelLookup(name, 65)
			if rc != 0 && rc != 3 {
				out.Err = fmt.Sprintf("rcode:%d", rc)
				return out
			}
			for _, r := range https {
				out.HTTPS = append(out.HTTPS, r.HTTPS)
			}
			sort.SliceStable(out.HTTPS, func(i, j int) bool { return out.HTTPS[i].Priority < out.HTTPS[j].Priority })
			for _, h := range out.HTTPS {
				if h.Target == "" {
					continue
				}
				if out.Additional == nil {
					out.Additional = map[string][]string{}
				}
				// a target is looked up again for a later record as long as no
				// address was found for it (failed lookups are not remembered)
				if l, done := out.Additional[h.Target]; done && len(l) > 0 {
					continue
				}
				a, rc := modelLookup(h.Target, 1)
				if rc != 0 {
					continue
				}
				var l []string
				for _, r := range a {
					l = append(l, r.IP.String())
				}
				out.Additional[h.Target] = l
				aaaa, rc := modelLookup(h.Target, 28)
				if rc != 0 {
					continue
				}
				for _, r := range aaaa {
					l = append(l, r.IP.String())
				}
				out.Additional[h.Target] = l
			}
			a, rc := modelLookup(name, 1)
			if rc != 0 {
				out.Err = fmt.Sprintf("rcode:%d", rc)
				return out
			}
			aaaa, rc := modelLookup(name, 28)
			if rc != 0 {
				out.Err = fmt.Sprintf("rcode:%d", rc)
				return out
			}
			for _, r := range append(a, aaaa...) {
				out.Address = append(out.Address, r.IP.String())
			}
			return out
		}
		var ops []string
		advancedSinceResolve := false
		nontrivial := false
		failedBefore := map[string]bool{}
		withZoneServer(z, hook, func(url string, srv *dnsfx.Server) {
			r, err := ech.NewResolver(url)
			if err != nil {
				t.Fatalf("harness: %v", err)
			}
			nops := rapid.IntRange(2, 15).Draw(t, "nops")
			for i := 0; i < nops; i++ {
				op := rapid.IntRange(0, 9).Draw(t, "op")
				switch {
				case op <= 4: // resolve
					name := c16Names[rapid.IntRange(0, 2).Draw(t, "name")]
					ops = append(ops, "resolve:"+name)
					predicted = nil
					clockMu.Lock()
					step = 0
					if rapid.IntRange(0, 3).Draw(t, "time_passes_during_resolve") == 0 {
						step = time.Duration(rapid.SampledFrom([]int{500, 1000, 2000, 5000, 30000, 61000, 300000}).Draw(t, "step_ms")) * time.Millisecond
						cl = append(cl, "clock_advances_during_resolve")
					}
					mnow = now
					clockMu.Unlock()
					z.Lock()
					want := modelResolve(name)
					z.Unlock()
					logMu.Lock()
					before := len(respLog)
					logMu.Unlock()
					ctx, cancel := context.WithTimeout(context.Background(), 30*time.Second)
					var res ech.ResolveResult
					rerr := guard(func() error { var e error; res, e = r.Resolve(ctx, name); return e })
					cancel()
					if rerr == nil {
						// the caller does with the result what results are for: enumerate targets for
						// one address family or another; that leaves the resolver's cache alone
						nw := rapid.SampledFrom([]string{"tcp", "tcp4", "tcp6", "udp4", "udp6"}).Draw(t, "targets_network")
						guard(func() error {
							for range res.Targets(nw) {
							}
							return nil
						})
					}
					clockMu.Lock()
					step = 0
					now = mnow // equal already when the queries sent are the predicted ones
					clockMu.Unlock()
					logMu.Lock()
					var sent []string
					for _, e := range respLog[before:] {
						sent = append(sent, e.Key)
					}
					logMu.Unlock()
					rp := map[string]any{"ops": ops, "zone": z.Describe(), "now": now.Sub(time.Date(2030, 1, 1, 0, 0, 0, 0, time.UTC)).String(), "sent": sent, "predicted": predicted}
					if isPanic(rerr) {
						ev.Violation(t, "C16", rp, "Resolve panicked: %v", rerr)
					}
					if fmt.Sprint(sent) != fmt.Sprint(predicted) {
						what := "the resolver asked upstream although a fresh answer was cached"
						if len(sent) < len(predicted) {
							what = "the resolver answered from its cache although the cached response had expired, was not cacheable (TTL 0) or was a failure"
						}
						ev.Violation(t, "C16", rp, "%s: upstream queries %v, reference cache predicts %v", what, sent, predicted)
					}
					if d := compareOutcome(res, rerr, want); d != "" {
						ev.Violation(t, "C16", rp, "resolve(%s) at +%v: %s", name, rp["now"], d)
					}
					// results handed out earlier are the caller's: later lookups (cache refreshes
					// included) leave them as they were
					for _, h := range held {
						if cur := fmt.Sprintf("%+v", h.res); cur != h.snap {
							ev.Violation(t, "C16", rp, "the result of an earlier resolve(%s) changed after later lookups:\n was %s\n now %s", h.name, h.snap, cur)
						}
					}
					if rerr == nil {
						held = append(held, heldResult{name, res, fmt.Sprintf("%+v", res)})
					}
					if len(predicted) == 0 {
						cl = append(cl, "cache_hit")
					}
					if advancedSinceResolve {
						nontrivial = true
						if len(predicted) > 0 {
							cl = append(cl, "refetch_after_expiry")
						}
					}
					for _, k := range predicted {
						if failedBefore[k] && want.Err == "" {
							cl = append(cl, "failure_then_recovery")
						}
						delete(failedBefore, k)
					}
					if want.Err != "" && len(predicted) > 0 {
						failedBefore[predicted[len(predicted)-1]] = true
					}
					advancedSinceResolve = false
				case op <= 6: // advance the clock
					var d time.Duration
					kind := rapid.IntRange(0, 6).Draw(t, "adv_kind")
					var exps []time.Time
					for _, e := range cache {
						if e.Exp.After(now) {
							exps = append(exps, e.Exp)
						}
					}
					sort.Slice(exps, func(i, j int) bool { return exps[i].Before(exps[j]) })
					switch {
					case kind <= 2 && len(exps) > 0:
						e := exps[rapid.IntRange(0, len(exps)-1).Draw(t, "adv_entry")]
						near := time.Duration(rapid.SampledFrom([]int{1000, 1000, 1, 400, 600}).Draw(t, "adv_near_ms")) * time.Millisecond
						switch kind {
						case 0:
							d = e.Sub(now) - near
							cl = append(cl, "expiry_minus1")
						case 1:
							d = e.Sub(now)
							cl = append(cl, "expiry_exact")
						default:
							d = e.Sub(now) + near
							cl = append(cl, "expiry_plus1")
						}
						if d < 0 {
							d = 0
						}
					case kind == 3:
						d = time.Duration(rapid.SampledFrom([]int{0, 1, 499, 500, 999}).Draw(t, "adv_ms")) * time.Millisecond
					case kind == 4:
						d = time.Second
					default:
						d = time.Duration(rapid.SampledFrom([]int{299, 300, 301, 2, 59, 61, 601}).Draw(t, "adv_s")) * time.Second
					}
					clockMu.Lock()
					now = now.Add(d)
					clockMu.Unlock()
					if d >= time.Second {
						advancedSinceResolve = true
					}
					ops = append(ops, fmt.Sprintf("advance:%v", d))
				case op <= 8: // mutate the zone
					ttlMode = rapid.IntRange(0, 2).Draw(t, "ttl_mode")
					populate()
					cl = append(cl, "zone_mutated")
					ops = append(ops, fmt.Sprintf("mutate:v%d", z.Version))
				default: // failure on/off
					name := append(append([]string{}, c16Names...), "t1.example")[rapid.IntRange(0, 3).Draw(t, "fail_name")]
					typ := []uint16{65, 1, 28}[rapid.IntRange(0, 2).Draw(t, "fail_type")]
					key := dnsfx.Key(name, typ)
					z.Lock()
					_, on1 := z.RCode[key]
					_, on2 := z.HTTPErr[key]
					if on1 || on2 {
						delete(z.RCode, key)
						delete(z.HTTPErr, key)
						ops = append(ops, "fail_off:"+key)
					} else if rapid.IntRange(0, 3).Draw(t, "fail_http") == 0 {
						z.HTTPErr[key] = 400
						ops = append(ops, "fail_http:"+key)
					} else {
						z.RCode[key] = rapid.SampledFrom([]int{2, 5, 6, 9, 16, 23}).Draw(t, "fail_rc")
						ops = append(ops, "fail_rcode:"+key)
					}
					z.Unlock()
				}
			}
		})
		kinds := make([]string, len(ops))
		for i, o := range ops {
			kinds[i] = strings.SplitN(o, ":", 2)[0]
		}
		rec.Case(strings.Join(ops, ","), nontrivial, cl, func() any { return map[string]any{"ops": ops} })
	})
}

// TestC16ConcurrentExpiry: an entry expires (virtual clock), the zone changes, and then
// several goroutines look the same name up at once: none of them may get the expired
// answer (a logic race in the fast/slow path is not a data race, so the race detector
// alone would not see it).
func TestC16ConcurrentExpiry(t *testing.T) {
	rec := ev.Get("C16")
	defer runtime.GOMAXPROCS(runtime.GOMAXPROCS(0))
	rapid.Check(t, func(t *rapid.T) {
		var nowNS atomic.Int64
		base := time.Date(2031, 1, 1, 0, 0, 0, 0, time.UTC)
		ech.SetTimeNowForVerif(func() time.Time { return base.Add(time.Duration(nowNS.Load())) })
		defer ech.SetTimeNowForVerif(nil)
		z := dnsfx.NewZone()
		ttl := uint32(rapid.SampledFrom([]int{1, 5, 30, 300}).Draw(t, "ttl"))
		g := &zoneGen{t: t, z: z, ttl: func() uint32 { return ttl }}
		name := "x.example"
		populate := func() {
			z.Lock()
			defer z.Unlock()
			z.Version++
			z.A, z.AAAA, z.HTTPS = map[string][]dnsfx.ZRec{}, map[string][]dnsfx.ZRec{}, map[string][]dnsfx.ZRec{}
			g.addrs(name, "a", 1)
			g.addrs("t1.example", "t1", 1)
			g.service(name, "svc")
		}
		populate()
		ng := rapid.IntRange(2, 24).Draw(t, "goroutines")
		runtime.GOMAXPROCS([]int{2, 4, 8, 16}[rapid.IntRange(0, 3).Draw(t, "gomaxprocs")])
		rounds := rapid.IntRange(1, 5).Draw(t, "rounds")
		adv := make([]time.Duration, rounds)
		for i := range adv {
			// empty answers are kept for 300 s: go past both the record TTL and the negative TTL
			adv[i] = time.Duration(max(ttl, 300))*time.Second + time.Duration(rapid.IntRange(0, 2).Draw(t, "past"))*time.Second
		}
		var viol string
		withZoneServer(z, nil, func(url string, srv *dnsfx.Server) {
			r, err := ech.NewResolver(url)
			if err != nil {
				t.Fatalf("harness: %v", err)
			}
			resolveOK := func() (ech.ResolveResult, error) {
				ctx, cancel := context.WithTimeout(context.Background(), 30*time.Second)
				defer cancel()
				return r.Resolve(ctx, name)
			}
			if _, err := resolveOK(); err != nil { // fills the cache with version 1
				viol = fmt.Sprintf("first resolve: %v", err)
				return
			}
			for round := 0; round < rounds && viol == ""; round++ {
				nowNS.Add(int64(adv[round])) // every cached answer has expired
				populate()                   // and the zone has new data
				z.Lock()
				want := dnsfx.RefResolve(z, name)
				version := z.Version
				z.Unlock()
				var mu sync.Mutex
				var wg sync.WaitGroup
				start := make(chan struct{})
				for i := 0; i < ng; i++ {
					wg.Add(1)
					go func() {
						defer wg.Done()
						<-start
						res, err := resolveOK()
						if d := compareOutcome(res, err, want); d != "" {
							mu.Lock()
							viol = fmt.Sprintf("round %d (zone version %d, %d concurrent lookups after expiry): %s", round, version, ng, d)
							mu.Unlock()
						}
					}()
				}
				close(start)
				wg.Wait()
			}
		})
		if viol != "" {
			ev.Violation(t, "C16", map[string]any{"zone": z.Describe(), "goroutines": ng, "ttl": ttl}, "concurrent lookups after expiry: %s", viol)
		}
		rec.Case(fmt.Sprintf("cexp|%d|%d|%d", ng, ttl, rounds), true, []string{"concurrent_expiry"}, func() any {
			return map[string]any{"kind": "concurrent_expiry", "goroutines": ng, "ttl": ttl, "rounds": rounds}
		})
	})
}

// TestC16Race: concurrent Resolve / Targets on one Resolver; built with -race.
func TestC16Race(t *testing.T) {
	rec := ev.Get("C16")
	defer runtime.GOMAXPROCS(runtime.GOMAXPROCS(0))
	rapid.Check(t, func(t *rapid.T) {
		z := dnsfx.NewZone()
		z.Version = 1
		g := &zoneGen{t: t, z: z, ttl: func() uint32 { return 600 }}
		names := []string{"r1.example", "r2.example"}
		for _, n := range names {
			g.addrs(n, "a_"+n, 1)
			k := rapid.IntRange(1, 3).Draw(t, "nrec")
			for i := 0; i < k; i++ {
				h := dns.HTTPS{Priority: uint16(i + 1), ECH: g.echBytes(n)}
				for j, m := 0, rapid.IntRange(0, 7).Draw(t, "nalpn"); j < m; j++ {
					h.ALPN = append(h.ALPN, []string{"h2", "h3", "http/1.1", "a", "b", "c", "d"}[j])
				}
				if rapid.Bool().Draw(t, "target") {
					h.Target = "t1.example"
				}
				z.HTTPS[n] = append(z.HTTPS[n], dnsfx.ZRec{TTL: 600, HTTPS: h})
			}
		}
		g.addrs("t1.example", "t1", 1)
		// a third name whose HTTPS lookup the upstream only ever fails: every Resolve of it, from
		// whichever goroutine and however the lookups coincide, reports an error
		failName := "rfail.example"
		g.addrs(failName, "a_fail", 1)
		// a named code, or one of the thousands of (extended) codes without a name of their own -
		// most cases meet one the process has not seen before
		frc := []int{2, 5}[rapid.IntRange(0, 1).Draw(t, "fail_rcode")]
		if rapid.IntRange(0, 3).Draw(t, "fail_rcode_unnamed") != 0 {
			frc = 6 + uniform(t, "fail_rcode_value", 4090)
		}
		z.RCode[dnsfx.Key(failName, 65)] = frc
		// and a second failing name with a code of its own: lookups of different names share no lock
		failName2 := "rfail2.example"
		g.addrs(failName2, "a_fail2", 1)
		z.RCode[dnsfx.Key(failName2, 65)] = 6 + uniform(t, "fail_rcode_value2", 4090)
		ng := rapid.IntRange(2, 24).Draw(t, "goroutines")
		runtime.GOMAXPROCS([]int{2, 4, 8, 16}[rapid.IntRange(0, 3).Draw(t, "gomaxprocs")])
		iters := rapid.IntRange(2, 6).Draw(t, "iters")
		plans := make([][]int, ng)
		for i := range plans {
			for j := 0; j < iters; j++ {
				plans[i] = append(plans[i], rapid.IntRange(0, 11).Draw(t, "plan"))
			}
		}
		want := map[string]string{}
		for _, n := range names {
			w := dnsfx.RefResolve(z, n)
			rr := ech.ResolveResult{Port: 443}
			for _, a := range w.Address {
				ip := net.ParseIP(a)
				if v4 := ip.To4(); v4 != nil {
					ip = v4
				}
				rr.Address = append(rr.Address, ip)
			}
			rr.HTTPS = w.HTTPS
			for k, l := range w.Additional {
				if rr.Additional == nil {
					rr.Additional = map[string][]net.IP{}
				}
				for _, a := range l {
					ip := net.ParseIP(a)
					if v4 := ip.To4(); v4 != nil {
						ip = v4
					}
					rr.Additional[k] = append(rr.Additional[k], ip)
				}
			}
			for _, nw := range []string{"tcp", "tcp4"} {
				var s []string
				for _, tg := range dnsfx.RefTargets(rr, nw) {
					s = append(s, fmt.Sprintf("%v %x %v", tg.Addr, tg.ECH, dnsfx.SortedKeys(tg.ALPN)))
				}
				want[n+"|"+nw] = strings.Join(s, ";")
			}
		}
		var mu sync.Mutex
		var viol string
		// the clock moves while the goroutines work: in some runs it jumps past the TTL a few
		// times, so that one goroutine refreshes an entry that others are being served from
		jumps := rapid.IntRange(0, 6).Draw(t, "clock_jumps_past_ttl")
		var offset atomic.Int64
		base := time.Date(2031, 1, 1, 0, 0, 0, 0, time.UTC)
		ech.SetTimeNowForVerif(func() time.Time { return base.Add(time.Duration(offset.Load())) })
		defer ech.SetTimeNowForVerif(nil)
		withZoneServer(z, nil, func(url string, srv *dnsfx.Server) {
			r, err := ech.NewResolver(url)
			if err != nil {
				t.Fatalf("harness: %v", err)
			}
			var wg sync.WaitGroup
			stopClock := make(chan struct{})
			clockDone := make(chan struct{})
			go func() {
				defer close(clockDone)
				for i := 0; i < jumps; i++ {
					select {
					case <-stopClock:
						return
					default:
					}
					runtime.Gosched()
					time.Sleep(200 * time.Microsecond)
					offset.Add(int64(601 * time.Second))
				}
			}()
			defer func() { close(stopClock); <-clockDone }()
			for gi := 0; gi < ng; gi++ {
				wg.Add(1)
				go func(plan []int) {
					defer wg.Done()
					for _, p := range plan {
						if p >= 8 {
							fn := []string{failName, failName2}[p&1]
							ctx, cancel := context.WithTimeout(context.Background(), 30*time.Second)
							res, err := r.Resolve(ctx, fn)
							cancel()
							if err == nil {
								mu.Lock()
								viol = fmt.Sprintf("Resolve(%s) = %+v, nil although the upstream only ever fails the HTTPS lookup", fn, res)
								mu.Unlock()
							}
							continue
						}
						name := names[p&1]
						nw := []string{"tcp", "tcp4"}[(p>>1)&1]
						ctx, cancel := context.WithTimeout(context.Background(), 30*time.Second)
						res, err := r.Resolve(ctx, name)
						cancel()
						if err != nil {
							mu.Lock()
							viol = fmt.Sprintf("Resolve(%s): %v", name, err)
							mu.Unlock()
							return
						}
						var s []string
						n := 0
						for tg := range res.Targets(nw) {
							al := map[string]bool{}
							for _, a := range tg.ALPN {
								al[a] = true
							}
							s = append(s, fmt.Sprintf("%v %x %v", tg.Address, tg.ECH, dnsfx.SortedKeys(al)))
							n++
							if p>>2 == 1 && n == 1 {
								break
							}
						}
						got := strings.Join(s, ";")
						w := want[name+"|"+nw]
						if p>>2 == 1 {
							if !strings.HasPrefix(w, got) {
								mu.Lock()
								viol = fmt.Sprintf("targets of %s (%s): %q is not a prefix of %q", name, nw, got, w)
								mu.Unlock()
							}
						} else if got != w {
							mu.Lock()
							viol = fmt.Sprintf("targets of %s (%s): got %q want %q", name, nw, got, w)
							mu.Unlock()
						}
					}
				}(plans[gi])
			}
			wg.Wait()
		})
		if viol != "" {
			ev.Violation(t, "C16", map[string]any{"zone": z.Describe(), "goroutines": ng}, "concurrent use: %s", viol)
		}
		cl := []string{"race_run"}
		if ng >= 8 {
			cl = append(cl, "race_ge8_goroutines")
		}
		rec.Case(fmt.Sprintf("race|%d|%v", ng, plans), true, cl, func() any { return map[string]any{"goroutines": ng, "plans": plans[:min(len(plans), 3)]} })
	})
}

// TestC16Age: the upstream's answers come through an HTTP cache and carry an Age header
// (RFC 8484 section 5.1), smaller or larger than the records' TTLs. Whatever a resolver
// makes of Age, it never serves an answer for longer than its TTL: once the clock is past
// fetch time + TTL, a lookup reflects the zone as it is now.
func TestC16Age(t *testing.T) {
	rec := ev.Get("C16")
	rapid.Check(t, func(t *rapid.T) {
		z := dnsfx.NewZone()
		z.Version = 1
		ttl := uint32(rapid.IntRange(0, 30).Draw(t, "ttl"))
		age := rapid.SampledFrom([]int{1, 2, 5, 10, 29, 30, 31, 60, 3600, 86400}).Draw(t, "age")
		g := &zoneGen{t: t, z: z, ttl: func() uint32 { return ttl }}
		name := "age.example"
		g.addrs(name, "v1", 1)
		if len(z.AAAA[name]) == 0 { // an empty answer would be cached for 300 s whatever the TTLs say
			z.AAAA[name] = []dnsfx.ZRec{{TTL: ttl, IP: g.ip6()}}
		}
		withHTTPS := rapid.Bool().Draw(t, "https_record")
		if withHTTPS {
			z.HTTPS[name] = []dnsfx.ZRec{{TTL: ttl, HTTPS: dns.HTTPS{Priority: 1, ECH: g.echBytes(name)}}}
		}
		now := time.Date(2032, 1, 1, 0, 0, 0, 0, time.UTC)
		var clockMu sync.Mutex
		ech.SetTimeNowForVerif(func() time.Time { clockMu.Lock(); defer clockMu.Unlock(); return now })
		defer ech.SetTimeNowForVerif(nil)
		var viol string
		withZoneServer(z, nil, func(url string, srv *dnsfx.Server) {
			srv.SetAge(age)
			defer srv.SetAge(0)
			r, err := ech.NewResolver(url)
			if err != nil {
				t.Fatalf("harness: %v", err)
			}
			ctx, cancel := context.WithTimeout(context.Background(), 30*time.Second)
			defer cancel()
			z.Lock()
			want1 := dnsfx.RefResolve(z, name)
			z.Unlock()
			res1, e1 := r.Resolve(ctx, name)
			if d := compareOutcome(res1, e1, want1); d != "" {
				viol = "first lookup: " + d
				return
			}
			// the zone changes; the clock moves past every TTL of the first answers
			z.Lock()
			z.Version = 2
			delete(z.A, name)
			delete(z.AAAA, name)
			g.addrs(name, "v2", 1)
			if len(z.AAAA[name]) == 0 {
				z.AAAA[name] = []dnsfx.ZRec{{TTL: ttl, IP: g.ip6()}}
			}
			if withHTTPS {
				z.HTTPS[name] = []dnsfx.ZRec{{TTL: ttl, HTTPS: dns.HTTPS{Priority: 1, ECH: g.echBytes(name)}}}
			}
			want2 := dnsfx.RefResolve(z, name)
			z.Unlock()
			clockMu.Lock()
			now = now.Add(time.Duration(ttl)*time.Second + time.Duration(rapid.SampledFrom([]int{0, 1, 1000, 86400000}).Draw(t, "past_ttl_ms"))*time.Millisecond)
			clockMu.Unlock()
			res2, e2 := r.Resolve(ctx, name)
			if d := compareOutcome(res2, e2, want2); d != "" {
				viol = fmt.Sprintf("lookup %v after answers with TTL %d (sent with Age: %d): the zone has changed, the resolver returns the old data: %s", time.Duration(ttl)*time.Second, ttl, age, d)
			}
		})
		if viol != "" {
			ev.Violation(t, "C16", map[string]any{"ttl": ttl, "age": age, "zone": z.Describe()}, "%s", viol)
		}
		cl := []string{"age_header"}
		if uint32(age) > ttl {
			cl = append(cl, "age_exceeds_ttl")
		}
		rec.Case(fmt.Sprintf("age|%d|%d|%v", ttl, age, withHTTPS), uint32(age) > ttl, cl, func() any {
			return map[string]any{"kind": "age", "ttl": ttl, "age": age}
		})
	})
}
