package props

import (
	"bytes"
	"context"
	"crypto/sha256"
	"fmt"
	"io"
	"os"
	"testing"

	"github.com/c2FmZQ/ech"
	"pgregory.net/rapid"

	"verif/harness/ev"
	"verif/harness/hello"
	"verif/harness/wire"
)

func keysReplay(keys []*hello.Key) []map[string]string {
	var out []map[string]string
	for _, k := range keys {
		out = append(out, map[string]string{"private": hx(k.Priv.Bytes()), "config": hx(k.Config)})
	}
	return out
}

// checkNotAccepted is the C02 oracle for a hello that must not be accepted:
// abort (error) or transparent fall-back. It returns a class label.
func checkNotAccepted(t ev.Failer, prop string, keys []*hello.Key, record []byte, what string) string {
	rp := map[string]any{"keys": keysReplay(keys), "client_stream": hx(record), "expect": "not_accepted", "mutation": what}
	tr := wire.New(record, io.EOF)
	snap := keySnapshot(keys)
	c, err := newConn(context.Background(), tr, echKeys(keys...))
	if keysChanged(keys, snap) {
		ev.Violation(t, prop, rp, "NewConn modified the key configs it was given")
	}
	if isPanic(err) {
		return "panic_seen" // C08's business; not an acceptance
	}
	if err != nil {
		return "abort"
	}
	if c.ECHAccepted() {
		ev.Violation(t, prop, rp, "ECH accepted although %s", what)
	}
	// transparent fall-back: only demanded for messages that are still
	// well-formed ClientHellos by the strict harness parser.
	if len(record) >= 5 {
		if _, perr := hello.ParseMessage(record[5:]); perr == nil {
			var got []byte
			e := guard(func() error { var e error; got, e = readOneRecord(c); return e })
			if isPanic(e) {
				return "panic_seen"
			}
			if e != nil || !sameRecord(got, record) {
				ev.Violation(t, prop, map[string]any{"case": rp, "got": hx(got)}, "fall-back is not transparent after %s (err=%v)", what, e)
			}
			return "fallback_exact"
		}
	}
	return "fallback_unparsable"
}

func flipBit(b []byte, bit int) []byte {
	c := append([]byte{}, b...)
	c[bit/8] ^= 1 << (7 - uint(bit%8))
	return c
}

// fieldOf names the field of a ClientHello message a byte offset belongs to.
func fieldOf(msg []byte, h *hello.Hello, off int) string {
	p := 4
	if off < p {
		return "hs_header"
	}
	if off < p+2 {
		return "legacy_version"
	}
	p += 2
	if off < p+32 {
		return "random"
	}
	p += 32
	if off < p+1+len(h.SessionID) {
		return "session_id"
	}
	p += 1 + len(h.SessionID)
	if off < p+2+len(h.Suites) {
		return "cipher_suites"
	}
	p += 2 + len(h.Suites)
	if off < p+1+len(h.Compression) {
		return "compression"
	}
	p += 1 + len(h.Compression)
	if off < p+2 {
		return "ext_block_len"
	}
	p += 2
	for _, e := range h.Exts {
		if off < p+4 {
			return "ext_header"
		}
		p += 4
		if off < p+len(e.Data) {
			switch e.Type {
			case hello.ExtSNI:
				return "sni_body"
			case hello.ExtSupportedVersions:
				return "versions_body"
			case hello.ExtECH:
				r := off - p
				encLen := int(e.Data[6])<<8 | int(e.Data[7])
				switch {
				case r == 0:
					return "ech_type"
				case r < 5:
					return "ech_suite"
				case r == 5:
					return "ech_config_id"
				case r < 8:
					return "ech_enc_len"
				case r < 8+encLen:
					return "ech_enc"
				case r < 10+encLen:
					return "ech_payload_len"
				default:
					return "ech_payload"
				}
			}
			return "other_ext_body"
		}
		p += len(e.Data)
	}
	return "beyond"
}

func TestC02(t *testing.T) {
	rec := ev.Get("C02")
	thorough := os.Getenv("VERIF_TIER") == "thorough"
	rec.Rule("valid sealed tuples (C03 generator); per tuple: positive control, then single-bit flips of the ClientHello message body (quick: 96 sampled bits; thorough: every bit), header flips (tolerant), and the substitutions wrong key (same/other id), wrong info (config differing in public name / suites / id with the same private key; concatenation of two held configs of the same id), suite named != suite used, wrong config id, enc/payload truncated/extended/swapped, AAD over a different session id, and length-consistent structural alterations (bytes appended inside the ECH extension, extension added/removed/grown/swapped, cipher suite, session id, compression method changed). In a third of the cases one or two keys with unparseable configs are inserted into the server's key list for the negative checks. Oracle: never accepted; fall-back byte-exact when the mutated message is still well-formed. distinct = (hello hash, mutation); every mutation is non-trivial")
	rec.Mandatory("flip:random", "flip:session_id", "flip:cipher_suites", "flip:ext_header", "flip:sni_body", "flip:ech_suite", "flip:ech_config_id", "flip:ech_enc", "flip:ech_payload", "flip:versions_body",
		"sub:wrong_key_same_id", "sub:wrong_key_other_id", "sub:wrong_info_public_name", "sub:wrong_info_suites", "sub:suite_mismatch", "sub:wrong_config_id", "sub:enc_truncated", "sub:payload_truncated", "sub:payload_extended", "sub:payload_swapped", "sub:aad_other_sid", "sub:suite_not_offered", "sub:wrong_config_id_sealed", "sub:wrong_info_concatenated_configs", "unparseable_key_configs_in_list",
		"struct:ech_ext_trailing_bytes", "struct:extension_added", "struct:extensions_swapped", "struct:extension_removed", "struct:extension_grown", "struct:cipher_suite_appended", "struct:session_id_changed", "struct:compression_appended", "struct:bytes_after_extensions", "struct:bytes_after_message")
	rapid.Check(t, func(t *rapid.T) {
		sc := drawSealed(t, false)
		hh := sha256.Sum256(sc.OuterMsg)
		hk := hx(hh[:6])
		keys := []*hello.Key{sc.Key}
		withDebug = rapid.Bool().Draw(t, "with_debug")
		defer func() { withDebug, debugHook = false, nil }()
		if rapid.IntRange(0, 2).Draw(t, "server_builds_its_options_once") > 0 {
			defer reuseOptions()()
		}
		if withDebug && rapid.Bool().Draw(t, "other_connection_from_debug_callback") {
			// while one hello is being examined the server takes in another connection
			// carrying the authentic hello: connections share nothing
			debugHook = func() {
				guard(func() error {
					newConn(context.Background(), wire.New(sc.Record, io.EOF), echKeys(sc.Key))
					return nil
				})
			}
			rec.Class("authentic_hello_on_another_connection_meanwhile")
		}
		// positive control
		checkAcceptedExact(t, "C02", sc, wire.New(sc.Record, io.EOF), keys)
		if _, err := hello.ReferenceOpen(sc.Key, sc.OuterMsg); err != nil {
			t.Fatalf("harness: reference receiver cannot open its own hello: %v", err)
		}
		rec.Class("positive_control")
		outer, err := hello.ParseMessage(sc.OuterMsg)
		if err != nil {
			t.Fatalf("harness: cannot parse own outer: %v", err)
		}
		// keys whose config does not parse (unknown version, truncated) may sit anywhere in the
		// server's list: they never make a hello acceptable
		junkPriv := drawKey(t, "junkkey", -1, "junk.example")
		mkJunk := func(kind int) *hello.Key {
			cfg := append([]byte{}, sc.Key.Config...)
			switch kind {
			case 0:
				cfg[0], cfg[1] = 0xfe, 0x0c // version of an older draft
			case 1:
				cfg = cfg[:len(cfg)-3]
			default:
				cfg = []byte{0xfe, 0x0d, 0, 1, 7}
			}
			return &hello.Key{Priv: junkPriv.Priv, ID: sc.Key.ID, PublicName: sc.Key.PublicName, Suites: sc.Key.Suites, Config: cfg}
		}
		nJunk := 0
		if rapid.IntRange(0, 2).Draw(t, "junk_keys") == 0 {
			nJunk = rapid.IntRange(1, 2).Draw(t, "n_junk")
		}
		junkKind := rapid.IntRange(0, 2).Draw(t, "junk_kind")
		junkAt := rapid.IntRange(0, 3).Draw(t, "junk_pos")
		withJunk := func(ks []*hello.Key) []*hello.Key {
			if nJunk == 0 {
				return ks
			}
			pos := min(junkAt, len(ks))
			out := append([]*hello.Key{}, ks[:pos]...)
			for i := 0; i < nJunk; i++ {
				out = append(out, mkJunk((junkKind+i)%3))
			}
			return append(out, ks[pos:]...)
		}
		if nJunk > 0 {
			rec.Class("unparseable_key_configs_in_list")
		}
		one := func(label, what string, record []byte) {
			out := checkNotAccepted(t, "C02", withJunk(keys), record, what)
			rec.Case(hk+"/"+what, true, []string{label, "outcome:" + out}, func() any {
				return map[string]any{"hello_len": len(sc.OuterMsg), "mutation": what, "outcome": out}
			})
		}
		// ---- bit flips in the message body
		nbits := (len(sc.OuterMsg) - 4) * 8
		flip := func(bit int) {
			m := flipBit(sc.OuterMsg, 32+bit)
			f := fieldOf(sc.OuterMsg, outer, 4+bit/8)
			if _, err := hello.ReferenceOpen(sc.Key, m); err == nil {
				t.Fatalf("harness: reference receiver opens a flipped hello (bit %d field %s)", bit, f)
			}
			one("flip:"+f, fmt.Sprintf("flipping bit %d of the ClientHello body (%s)", bit, f), hello.Record(22, sc.RecVer, m))
		}
		if thorough {
			for bit := 0; bit < nbits; bit++ {
				flip(bit)
			}
			rec.Class("exhaustive_flip_hello")
		} else {
			for i := 0; i < 64; i++ {
				flip(uniform(t, "bit", nbits))
			}
			// make sure the small fields are hit too: one flip in each named region
			regions := map[string][]int{}
			for off := 4; off < len(sc.OuterMsg); off++ {
				f := fieldOf(sc.OuterMsg, outer, off)
				regions[f] = append(regions[f], off)
			}
			for _, f := range []string{"legacy_version", "random", "session_id", "cipher_suites", "compression", "ext_block_len", "ext_header", "sni_body", "versions_body", "ech_type", "ech_suite", "ech_config_id", "ech_enc_len", "ech_enc", "ech_payload_len", "ech_payload", "other_ext_body"} {
				offs := regions[f]
				if len(offs) == 0 {
					continue
				}
				off := offs[uniform(t, "roff", len(offs))]
				flip((off-4)*8 + rapid.IntRange(0, 7).Draw(t, "rbit"))
			}
		}
		// ---- header flips: tolerant (abort, fall-back, or the unchanged outcome)
		for i := 0; i < 8; i++ {
			bit := uniform(t, "hbit", 9*8)
			r := flipBit(sc.Record, bit)
			c, err := newConn(context.Background(), wire.New(r, io.EOF), echKeys(keys...))
			cl := "hdrflip:abort"
			if err == nil && c.ECHAccepted() {
				got, e := readOneRecord(c)
				if e != nil || !sameRecord(got, hello.Record(22, 0x0303, sc.WantInner)) {
					ev.Violation(t, "C02", map[string]any{"keys": keysReplay(keys), "client_stream": hx(r)}, "header flip (bit %d) changed the accepted inner hello", bit)
				}
				cl = "hdrflip:same_outcome"
			} else if err == nil {
				cl = "hdrflip:fallback"
			}
			rec.Class(cl)
		}
		// ---- substitutions
		ei := outer.Find(hello.ExtECH)
		ed := outer.Exts[ei].Data
		encLen := int(ed[6])<<8 | int(ed[7])
		enc := ed[8 : 8+encLen]
		payload := ed[10+encLen:]
		rebuild := func(kdf, aead uint16, id uint8, enc, payload []byte) []byte {
			o := outer.Clone()
			o.Exts[ei].Data = hello.ECHOuterExt(kdf, aead, id, enc, payload)
			return hello.Record(22, sc.RecVer, o.Message())
		}
		withKeys := func(ks []*hello.Key, label, what string, record []byte) {
			saved := keys
			keys = ks
			one(label, what, record)
			keys = saved
		}
		// wrong key, same id / other id
		other := drawKey(t, "otherkey", int(sc.Key.ID), sc.Key.PublicName)
		other.Suites = sc.Key.Suites
		other2, _ := hello.NewKey(other.Priv.Bytes(), sc.Key.ID, sc.Key.PublicName, sc.Key.Suites)
		withKeys([]*hello.Key{other2}, "sub:wrong_key_same_id", "the server holds a different private key under the same config id", sc.Record)
		other3, _ := hello.NewKey(other.Priv.Bytes(), sc.Key.ID+1, sc.Key.PublicName, sc.Key.Suites)
		withKeys([]*hello.Key{other3}, "sub:wrong_key_other_id", "the server holds a different private key under another config id", sc.Record)
		withKeys(nil, "sub:no_keys", "the server holds no key", sc.Record)
		// wrong info: same private key, config differs
		pn := sc.Key.PublicName + "x"
		if len(pn) > 253 {
			pn = "x" + sc.Key.PublicName[2:]
		}
		wi1, _ := hello.NewKey(sc.Key.Priv.Bytes(), sc.Key.ID, pn, sc.Key.Suites)
		withKeys([]*hello.Key{wi1}, "sub:wrong_info_public_name", "the server's config has another public name (info string differs)", sc.Record)
		su := append([]hello.Suite{}, sc.Key.Suites...)
		if len(su) < 3 {
			for _, s := range hello.AllSuites {
				found := false
				for _, x := range su {
					found = found || x == s
				}
				if !found {
					su = append(su, s)
					break
				}
			}
		} else {
			su[0], su[1] = su[1], su[0]
		}
		wi2, _ := hello.NewKey(sc.Key.Priv.Bytes(), sc.Key.ID, sc.Key.PublicName, su)
		withKeys([]*hello.Key{wi2}, "sub:wrong_info_suites", "the server's config has another cipher-suite list (info string differs)", sc.Record)
		wi3 := &hello.Key{Priv: sc.Key.Priv, ID: sc.Key.ID, PublicName: sc.Key.PublicName, Suites: sc.Key.Suites,
			Config: hello.ConfigBytes(sc.Key.ID, 0x0020, sc.Key.Priv.PublicKey().Bytes(), sc.Key.Suites, uint8(min(len(sc.Key.PublicName)+16, 255))^1, []byte(sc.Key.PublicName))}
		withKeys([]*hello.Key{wi3}, "sub:wrong_info_maxnamelen", "the server's config has another maximum_name_length (info string differs)", sc.Record)
		// suite named != suite used
		for _, s := range hello.AllSuites {
			if s != sc.Suite {
				one("sub:suite_mismatch", fmt.Sprintf("the extension names aead %d but the payload was sealed with aead %d", s.AEAD, sc.Suite.AEAD), rebuild(s.KDF, s.AEAD, sc.Key.ID, enc, payload))
			}
		}
		one("sub:wrong_kdf", "the extension names an unknown KDF", rebuild(2, sc.Suite.AEAD, sc.Key.ID, enc, payload))
		// wrong config id (alone, and with another key under that id)
		one("sub:wrong_config_id", "the extension names another config id", rebuild(sc.Suite.KDF, sc.Suite.AEAD, sc.Key.ID+1, enc, payload))
		other3b, _ := hello.NewKey(other.Priv.Bytes(), sc.Key.ID+1, sc.Key.PublicName, hello.AllSuites)
		withKeys([]*hello.Key{sc.Key, other3b}, "sub:wrong_config_id", "the extension names the id of another key the server holds", rebuild(sc.Suite.KDF, sc.Suite.AEAD, sc.Key.ID+1, enc, payload))
		// the client names (and authenticates, through the AAD) the id of another key the server
		// holds, but seals to this key: no key "whose config id the client named" opens it
		{
			slw, err := hello.NewSealer(sc.Key.Config, sc.Key.Priv.PublicKey().Bytes(), sc.Suite, sc.Key.ID+1)
			if err != nil {
				t.Fatalf("harness: %v", err)
			}
			ow := sc.Tuple.Outer.Clone()
			encw := hello.Encode(hello.Compress(sc.Tuple.Inner, sc.Tuple.RunStart, sc.Tuple.RunLen), make([]byte, sc.Tuple.Pad))
			mw, err := slw.SealOuter(ow, encw, true)
			if err != nil {
				t.Fatalf("harness: %v", err)
			}
			withKeys([]*hello.Key{sc.Key, other3b}, "sub:wrong_config_id_sealed", "the hello names (in the AAD too) the id of another held key but is sealed to this key", hello.Record(22, sc.RecVer, mw))
			withKeys([]*hello.Key{other3b, sc.Key}, "sub:wrong_config_id_sealed", "the hello names (in the AAD too) the id of another held key but is sealed to this key", hello.Record(22, sc.RecVer, mw))
		}
		// several held keys under the same id and suites: the info string of each trial
		// decryption is bound to that key's config alone
		{
			sib := &hello.Key{Priv: other.Priv, ID: sc.Key.ID, PublicName: sc.Key.PublicName, Suites: sc.Key.Suites, Config: other2.Config}
			both := []*hello.Key{sib, sc.Key}
			// control: the authentic hello is accepted whatever precedes its key
			checkAcceptedExact(t, "C02", sc, wire.New(sc.Record, io.EOF), both)
			rec.Class("positive_control_sibling_key")
			for _, cat := range [][]byte{append(append([]byte{}, sib.Config...), sc.Key.Config...), append(append([]byte{}, sc.Key.Config...), sib.Config...)} {
				slc, err := hello.NewSealer(cat, sc.Key.Priv.PublicKey().Bytes(), sc.Suite, sc.Key.ID)
				if err != nil {
					t.Fatalf("harness: %v", err)
				}
				oc := sc.Tuple.Outer.Clone()
				encc := hello.Encode(hello.Compress(sc.Tuple.Inner, sc.Tuple.RunStart, sc.Tuple.RunLen), make([]byte, sc.Tuple.Pad))
				mc, err := slc.SealOuter(oc, encc, true)
				if err != nil {
					t.Fatalf("harness: %v", err)
				}
				withKeys(both, "sub:wrong_info_concatenated_configs", "the client's info string is the concatenation of two held configs, not the config of the key it sealed to", hello.Record(22, sc.RecVer, mc))
				withKeys([]*hello.Key{sc.Key, sib}, "sub:wrong_info_concatenated_configs", "the client's info string is the concatenation of two held configs, not the config of the key it sealed to", hello.Record(22, sc.RecVer, mc))
			}
		}
		// enc / payload truncated, extended
		k := rapid.IntRange(1, len(enc)).Draw(t, "enc_cut")
		one("sub:enc_truncated", fmt.Sprintf("enc truncated by %d bytes", k), rebuild(sc.Suite.KDF, sc.Suite.AEAD, sc.Key.ID, enc[:len(enc)-k], payload))
		one("sub:enc_extended", "enc extended by one byte", rebuild(sc.Suite.KDF, sc.Suite.AEAD, sc.Key.ID, append(append([]byte{}, enc...), 0), payload))
		k = rapid.IntRange(1, len(payload)-1).Draw(t, "payload_cut")
		one("sub:payload_truncated", fmt.Sprintf("payload truncated by %d bytes", k), rebuild(sc.Suite.KDF, sc.Suite.AEAD, sc.Key.ID, enc, payload[:len(payload)-k]))
		one("sub:payload_truncated", "payload truncated at the front", rebuild(sc.Suite.KDF, sc.Suite.AEAD, sc.Key.ID, enc, payload[k:]))
		if len(sc.OuterMsg) < 16000 {
			one("sub:payload_extended", "payload extended by one byte", rebuild(sc.Suite.KDF, sc.Suite.AEAD, sc.Key.ID, enc, append(append([]byte{}, payload...), 0)))
		}
		// payload / enc swapped with a second hello sealed to the same key
		sl2, err := hello.NewSealer(sc.Key.Config, sc.Key.Priv.PublicKey().Bytes(), sc.Suite, sc.Key.ID)
		if err != nil {
			t.Fatalf("harness: %v", err)
		}
		o2 := sc.Tuple.Outer.Clone()
		encoded := hello.Encode(hello.Compress(sc.Tuple.Inner, sc.Tuple.RunStart, sc.Tuple.RunLen), make([]byte, sc.Tuple.Pad))
		m2, err := sl2.SealOuter(o2, encoded, true)
		if err != nil {
			t.Fatalf("harness: %v", err)
		}
		h2, _ := hello.ParseMessage(m2)
		ed2 := h2.Exts[ei].Data
		payload2 := ed2[10+encLen:]
		enc2 := ed2[8 : 8+encLen]
		one("sub:payload_swapped", "payload taken from another hello sealed under another HPKE context", rebuild(sc.Suite.KDF, sc.Suite.AEAD, sc.Key.ID, enc, payload2))
		one("sub:payload_swapped", "enc taken from another hello", rebuild(sc.Suite.KDF, sc.Suite.AEAD, sc.Key.ID, enc2, payload))
		// AAD over a different session id
		sl3, _ := hello.NewSealer(sc.Key.Config, sc.Key.Priv.PublicKey().Bytes(), sc.Suite, sc.Key.ID)
		o3 := sc.Tuple.Outer.Clone()
		m3, err := sl3.SealOuterAAD(o3, encoded, true, func(aad []byte) []byte {
			a := append([]byte{}, aad...)
			a[34] ^= 0x01 // session id length / first byte region: any change
			return a
		})
		if err != nil {
			t.Fatalf("harness: %v", err)
		}
		one("sub:aad_other_sid", "the AAD used by the client differs from the hello sent (session id length byte)", hello.Record(22, sc.RecVer, m3))
		// suite that the server's config does not offer, although its KDF and its AEAD
		// each appear in some offered suite: config [(1,a),(2,b)], client names (1,b)
		{
			a, b := hello.AllSuites[uniform(t, "cross_a", 3)].AEAD, uint16(0)
			for _, s := range hello.AllSuites {
				if s.AEAD != a {
					b = s.AEAD
				}
			}
			ck, _ := hello.NewKey(sc.Key.Priv.Bytes(), sc.Key.ID, sc.Key.PublicName, []hello.Suite{{KDF: 1, AEAD: a}, {KDF: 2, AEAD: b}})
			slx, err := hello.NewSealer(ck.Config, ck.Priv.PublicKey().Bytes(), hello.Suite{KDF: 1, AEAD: b}, ck.ID)
			if err != nil {
				t.Fatalf("harness: %v", err)
			}
			ox := sc.Tuple.Outer.Clone()
			mx, err := slx.SealOuter(ox, encoded, true)
			if err != nil {
				t.Fatalf("harness: %v", err)
			}
			withKeys([]*hello.Key{ck}, "sub:suite_not_offered", fmt.Sprintf("the client used suite (1,%d) but the config offers only (1,%d) and (2,%d)", b, a, b), hello.Record(22, sc.RecVer, mx))
			// the same hello to a server that also holds, earlier in its list, a key under another
			// config id whose config does offer (1,b): what another key's config lists is not an offer
			permissive := drawKey(t, "permissive", int(ck.ID)+1, ck.PublicName)
			permissive, _ = hello.NewKey(permissive.Priv.Bytes(), ck.ID+1, ck.PublicName, hello.AllSuites)
			withKeys([]*hello.Key{permissive, ck}, "sub:suite_not_offered", fmt.Sprintf("the client used suite (1,%d) which only the config of an earlier key with another id offers; the named config offers (1,%d) and (2,%d)", b, a, b), hello.Record(22, sc.RecVer, mx))
			// control: the offered suite (1,a) is accepted with the same key
			sly, _ := hello.NewSealer(ck.Config, ck.Priv.PublicKey().Bytes(), hello.Suite{KDF: 1, AEAD: a}, ck.ID)
			oy := sc.Tuple.Outer.Clone()
			my, _ := sly.SealOuter(oy, encoded, true)
			cy, err := newConn(context.Background(), wire.New(hello.Record(22, sc.RecVer, my), io.EOF), echKeys(ck))
			if err != nil || !cy.ECHAccepted() {
				ev.Violation(t, "C02", map[string]any{"keys": keysReplay([]*hello.Key{ck}), "client_stream": hx(hello.Record(22, sc.RecVer, my)), "expect": "accept_exact", "want_inner_msg": hx(sc.WantInner)}, "hello sealed with an offered suite of a two-KDF config is not accepted: %v", err)
			}
			// and once more now that a connection was accepted through the very same Option values
			withKeys([]*hello.Key{ck}, "sub:suite_not_offered", fmt.Sprintf("after an accepted connection served with the same options: the client used suite (1,%d) but the config offers only (1,%d) and (2,%d)", b, a, b), hello.Record(22, sc.RecVer, mx))
		}
		// ---- structural alterations: the hello stays a well-formed ClientHello (all
		// enclosing lengths are recomputed) but is no longer the one the client sealed
		alt := func(label, what string, f func(o *hello.Hello) bool) {
			o := outer.Clone()
			if !f(o) {
				return
			}
			m := o.Message()
			if len(m) > 16384 || bytes.Equal(m, sc.OuterMsg) {
				return
			}
			if _, err := hello.ReferenceOpen(sc.Key, m); err == nil {
				t.Fatalf("harness: reference receiver opens a structurally altered hello (%s)", what)
			}
			one(label, what, hello.Record(22, sc.RecVer, m))
		}
		ntrail := rapid.IntRange(1, 4).Draw(t, "ech_trailing")
		alt("struct:ech_ext_trailing_bytes", fmt.Sprintf("%d bytes appended inside the ECH extension after the payload", ntrail), func(o *hello.Hello) bool {
			o.Exts[ei].Data = append(append([]byte{}, o.Exts[ei].Data...), make([]byte, ntrail)...)
			return true
		})
		alt("struct:ech_ext_trailing_bytes", "a copy of the payload's last byte appended inside the ECH extension", func(o *hello.Hello) bool {
			d := o.Exts[ei].Data
			o.Exts[ei].Data = append(append([]byte{}, d...), d[len(d)-1])
			return true
		})
		newType := uint16(0xff00 + rapid.IntRange(2, 0xf0).Draw(t, "new_ext_type"))
		newPos := uniform(t, "new_ext_pos", len(outer.Exts)+1)
		alt("struct:extension_added", fmt.Sprintf("an empty extension of type %#x inserted at position %d", newType, newPos), func(o *hello.Hello) bool {
			if o.Find(newType) >= 0 {
				return false
			}
			if last := len(o.Exts) - 1; last >= 0 && o.Exts[last].Type == hello.ExtPSK && newPos > last {
				newPos = last
			}
			exts := append([]hello.Ext{}, o.Exts[:newPos]...)
			exts = append(exts, hello.Ext{Type: newType})
			o.Exts = append(exts, o.Exts[newPos:]...)
			return true
		})
		if len(outer.Exts) >= 2 {
			sw := uniform(t, "swap_pos", len(outer.Exts)-1)
			alt("struct:extensions_swapped", fmt.Sprintf("extensions %d and %d exchanged", sw, sw+1), func(o *hello.Hello) bool {
				if o.Exts[sw+1].Type == hello.ExtPSK {
					return false
				}
				o.Exts[sw], o.Exts[sw+1] = o.Exts[sw+1], o.Exts[sw]
				return true
			})
			rm := uniform(t, "remove_pos", len(outer.Exts))
			alt("struct:extension_removed", fmt.Sprintf("extension %d removed", rm), func(o *hello.Hello) bool {
				if rm == ei || o.Exts[rm].Type == hello.ExtSNI || o.Exts[rm].Type == hello.ExtSupportedVersions {
					return false
				}
				o.Exts = append(append([]hello.Ext{}, o.Exts[:rm]...), o.Exts[rm+1:]...)
				return true
			})
			gr := uniform(t, "grow_pos", len(outer.Exts))
			alt("struct:extension_grown", fmt.Sprintf("one byte appended to the body of extension %d", gr), func(o *hello.Hello) bool {
				if gr == ei {
					return false
				}
				o.Exts[gr].Data = append(append([]byte{}, o.Exts[gr].Data...), 0)
				return true
			})
		}
		// bytes after the extensions block, inside the ClientHello message (handshake length
		// adjusted) or after the message inside the record
		{
			k := rapid.IntRange(1, 4).Draw(t, "trailing_after_exts")
			junk := hello.GenBytes(t, "trailing_junk", k)
			if rapid.IntRange(0, 2).Draw(t, "trailing_zeros") == 0 {
				// what looks like padding: zero bytes, a few or many
				k = rapid.SampledFrom([]int{1, 2, 4, 16, 64}).Draw(t, "trailing_zeros_len")
				junk = make([]byte, k)
			}
			m := append(append([]byte{}, sc.OuterMsg...), junk...)
			n := len(m) - 4
			m[1], m[2], m[3] = byte(n>>16), byte(n>>8), byte(n)
			if len(m) <= 16384 {
				one("struct:bytes_after_extensions", fmt.Sprintf("%d bytes appended after the extensions block inside the ClientHello message", k), hello.Record(22, sc.RecVer, m))
			}
			m2 := append(append([]byte{}, sc.OuterMsg...), junk...)
			if len(m2) <= 16384 {
				one("struct:bytes_after_message", fmt.Sprintf("%d bytes appended after the ClientHello message inside its record", k), hello.Record(22, sc.RecVer, m2))
			}
		}
		alt("struct:cipher_suite_appended", "a cipher suite appended to the list", func(o *hello.Hello) bool {
			o.Suites = append(append([]byte{}, o.Suites...), 0x13, 0x01)
			return true
		})
		alt("struct:session_id_changed", "legacy_session_id shortened or extended by one byte", func(o *hello.Hello) bool {
			if len(o.SessionID) > 0 && rapid.Bool().Draw(t, "sid_shorter") {
				o.SessionID = o.SessionID[:len(o.SessionID)-1]
			} else if len(o.SessionID) < 32 {
				o.SessionID = append(append([]byte{}, o.SessionID...), 0)
			} else {
				return false
			}
			return true
		})
		alt("struct:compression_appended", "a compression method appended", func(o *hello.Hello) bool {
			o.Compression = append(append([]byte{}, o.Compression...), 1)
			return true
		})
		// AAD without zeroed payload (client forgot to zero = AAD includes garbage)
		sl4, _ := hello.NewSealer(sc.Key.Config, sc.Key.Priv.PublicKey().Bytes(), sc.Suite, sc.Key.ID)
		o4 := sc.Tuple.Outer.Clone()
		m4, _ := sl4.SealOuterAAD(o4, encoded, true, func(aad []byte) []byte {
			a := append([]byte{}, aad...)
			a[len(a)-1] ^= 0x80
			a[0] ^= 0x01
			return a
		})
		one("sub:aad_other_version", "the AAD used by the client differs in legacy_version", hello.Record(22, sc.RecVer, m4))
		// after all those connections the same key material still accepts the authentic hello
		checkAcceptedExact(t, "C02", sc, wire.New(sc.Record, io.EOF), keys)
		// key rotation in place: the application keeps ONE key slice and ONE option built from it,
		// serves a connection, then overwrites the slice's element with the new key. The server
		// now holds the new key only: a payload for the new config that is encrypted to the
		// retired public key is not acceptable, an honest one for the new key is
		if rapid.IntRange(0, 3).Draw(t, "rotation_in_place") == 0 {
			slice := []ech.Key{echKey(sc.Key)}
			opt := ech.WithKeys(slice)
			if c1, e := ech.NewConn(context.Background(), wire.New(sc.Record, io.EOF), opt); e != nil || !c1.ECHAccepted() {
				ev.Violation(t, "C02", sc.replay(), "authentic hello not accepted before the rotation: %v", e)
			}
			nk := drawKey(t, "rotated_in", int(sc.Key.ID), sc.Key.PublicName)
			nk, _ = hello.NewKey(nk.Priv.Bytes(), sc.Key.ID, sc.Key.PublicName, sc.Key.Suites)
			slice[0] = echKey(nk)
			mk := func(pub []byte) []byte {
				sl, err := hello.NewSealer(nk.Config, pub, sc.Suite, nk.ID)
				if err != nil {
					t.Fatalf("harness: %v", err)
				}
				m, err := sl.SealOuter(sc.Tuple.Outer.Clone(), encoded, true)
				if err != nil {
					t.Fatalf("harness: %v", err)
				}
				return hello.Record(22, sc.RecVer, m)
			}
			stale := mk(sc.Key.Priv.PublicKey().Bytes())
			rpr := map[string]any{"keys": keysReplay([]*hello.Key{nk}), "client_stream": hx(stale), "expect": "passthrough_exact", "note": "after a connection served by the same option when its slice held the retired key"}
			if c2, e := ech.NewConn(context.Background(), wire.New(stale, io.EOF), opt); e == nil && c2.ECHAccepted() {
				ev.Violation(t, "C02", rpr, "ECH accepted for a payload encrypted to the key that was rotated out of the server's key slice")
			}
			honest := mk(nk.Priv.PublicKey().Bytes())
			if c3, e := ech.NewConn(context.Background(), wire.New(honest, io.EOF), opt); e != nil || !c3.ECHAccepted() {
				ev.Violation(t, "C02", map[string]any{"keys": keysReplay([]*hello.Key{nk}), "client_stream": hx(honest), "expect": "accept_exact"}, "after the rotation a hello encrypted to the new key is not accepted: %v", e)
			}
		}
		_ = bytes.Equal
	})
}
