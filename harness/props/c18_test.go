package props

import (
	"context"
	"errors"
	"fmt"
	"net"
	"runtime"
	"sort"
	"strings"
	"sync"
	"testing"
	"testing/synctest"
	"time"

	"github.com/c2FmZQ/ech"
	"pgregory.net/rapid"

	"crypto/tls"

	"verif/harness/dnsfx"
	"verif/harness/ev"
	"verif/harness/wire"
)

type fakeConn struct {
	id     int
	mu     sync.Mutex
	closed int
}

func (c *fakeConn) Close() error { c.mu.Lock(); c.closed++; c.mu.Unlock(); return nil }

// c18Dialer runs ech.Dialer[T] with T either the concrete *fakeConn or an interface
// type that *fakeConn implements (Dialer[net.Conn]-style instantiations).
type c18Dialer struct {
	MaxConcurrency   int
	ConcurrencyDelay time.Duration
	Timeout          time.Duration
	Resolver         *ech.Resolver
	Iface            bool
	DialFunc         func(ctx context.Context, network, addr string, tc *tls.Config) (*fakeConn, error)
}

type c18Closer interface{ Close() error }

func (d *c18Dialer) Dial(ctx context.Context, network, addr string, tc *tls.Config) (*fakeConn, error) {
	if !d.Iface {
		dd := &ech.Dialer[*fakeConn]{MaxConcurrency: d.MaxConcurrency, ConcurrencyDelay: d.ConcurrencyDelay, Timeout: d.Timeout, Resolver: d.Resolver, DialFunc: d.DialFunc}
		return dd.Dial(ctx, network, addr, tc)
	}
	dd := &ech.Dialer[c18Closer]{MaxConcurrency: d.MaxConcurrency, ConcurrencyDelay: d.ConcurrencyDelay, Timeout: d.Timeout, Resolver: d.Resolver}
	dd.DialFunc = func(ctx context.Context, network, addr string, tc *tls.Config) (c18Closer, error) {
		c, err := d.DialFunc(ctx, network, addr, tc)
		if c == nil {
			return nil, err
		}
		return c, err
	}
	c, err := dd.Dial(ctx, network, addr, tc)
	if c == nil {
		return nil, err
	}
	return c.(*fakeConn), err
}

type c18Behaviour struct {
	Kind      string        `json:"kind"` // ok, fail, hang, ok_ignore_ctx, fail_ignore_ctx, reject_retry
	D         time.Duration `json:"d"`
	Kind2     string        `json:"kind2,omitempty"` // reject_retry: what the retry with the server's retry configs does (ok, fail, hang)
	D2        time.Duration `json:"d2,omitempty"`
	Addr      string        `json:"addr"`
	ErrTarget bool          `json:"err_target"` // resolve error target (never dialed)
	Filtered  bool          `json:"filtered"`   // excluded by the address family of the network
}

type c18Event struct {
	Kind     string // start, finish, restart (the one retry after an ECH rejection with retry configs)
	Target   int
	T        time.Duration
	Deadline time.Duration // ctx deadline relative to start (start events)
	HasDL    bool
	CtxErr   bool // ctx already done at start
	OK       bool // finish: success
	Conn     *fakeConn
}

var c18Grid = []time.Duration{0, time.Millisecond, 10 * time.Millisecond, 100 * time.Millisecond, 999 * time.Millisecond, time.Second, 1001 * time.Millisecond, 5 * time.Second, 29 * time.Second, 30 * time.Second, 31 * time.Second, 40 * time.Second}

func TestC18(t *testing.T) {
	rec := ev.Get("C18")
	rec.Rule("per case a synctest bubble: 0..5 targets given as comma-separated IP literals (plus resolve-error targets from over-long names and targets removed by the address family), per-target behaviour {succeed after d, fail after d, hang until the context ends, ignore the context and succeed/fail after d, be rejected by the server with retry configs after d and then succeed/fail/hang/be rejected again on the one retry} with d from a 12-point grid 0..40 s, MaxConcurrency 0..4, ConcurrencyDelay {default,10 ms,1 s,5 s}, Timeout {default,50 ms,2 s,35 s}, caller cancellation at a drawn time or never, network tcp/tcp4/tcp6. Oracle: invariants over the virtual-time event log (order, concurrency bound, stagger, per-attempt deadline (the retry after an ECH rejection shares the deadline the attempt began with), first success wins and is returned at its completion time, losers closed, joined errors, prompt cancellation, attempts begun after the outcome see a cancelled context) no goroutine of the Dialer alive at the first instant at which Dial has returned and no attempt is outstanding, and none left blocked when the bubble ends. distinct = (behaviour vector, options); non-trivial = 2+ dialed targets and at least one success")
	rec.Mandatory("two_successes_in_window", "success_after_cancel", "all_hang", "maxconc1_5targets", "late_winner", "no_address", "all_fail", "caller_cancel", "resolve_error_target", "ech_reject_retry")
	rapid.Check(t, func(rt *rapid.T) {
		network := rapid.SampledFrom([]string{"tcp", "tcp", "tcp4", "tcp6"}).Draw(rt, "network")
		n := rapid.IntRange(0, 5).Draw(rt, "ntargets")
		var bs []c18Behaviour
		var addrs []string
		for i := 0; i < n; i++ {
			b := c18Behaviour{Kind: rapid.SampledFrom([]string{"ok", "ok", "fail", "fail", "hang", "ok_ignore_ctx", "fail_ignore_ctx"}).Draw(rt, "kind"), D: c18Grid[rapid.IntRange(0, len(c18Grid)-1).Draw(rt, "d")]}
			if rapid.IntRange(0, 5).Draw(rt, "ech_reject") == 0 {
				b.Kind = "reject_retry"
				b.Kind2 = rapid.SampledFrom([]string{"ok", "fail", "hang", "hang", "reject_again", "reject_again"}).Draw(rt, "kind2")
				b.D2 = c18Grid[rapid.IntRange(0, len(c18Grid)-1).Draw(rt, "d2")]
			}
			switch rapid.IntRange(0, 9).Draw(rt, "addrkind") {
			case 0:
				b.ErrTarget = true
				b.Addr = strings.Repeat("x", 70) + fmt.Sprintf("%d.example:443", i)
			case 1, 2:
				b.Addr = fmt.Sprintf("[2001:db8::%d]:443", i+1)
				b.Filtered = network == "tcp4"
			default:
				b.Addr = fmt.Sprintf("192.0.2.%d:443", i+1)
				b.Filtered = network == "tcp6"
			}
			bs = append(bs, b)
			addrs = append(addrs, b.Addr)
		}
		if n == 0 {
			// no target at all: an address that the family filter removes
			network = "tcp6"
			addrs = []string{"192.0.2.99:443"}
			bs = []c18Behaviour{{Kind: "ok", Addr: addrs[0], Filtered: true}}
		}
		ifaceT := rapid.Bool().Draw(rt, "dialer_of_interface_type")
		callerDeadline := rapid.IntRange(0, 2).Draw(rt, "caller_context_has_far_deadline") == 0
		maxc := rapid.IntRange(0, 4).Draw(rt, "maxconc")
		delay := []time.Duration{0, 10 * time.Millisecond, time.Second, 5 * time.Second}[rapid.IntRange(0, 3).Draw(rt, "delay")]
		timeout := []time.Duration{0, 50 * time.Millisecond, 2 * time.Second, 35 * time.Second}[rapid.IntRange(0, 3).Draw(rt, "timeout")]
		cancelAt := time.Duration(-1)
		if rapid.IntRange(0, 2).Draw(rt, "cancel") == 0 {
			cancelAt = c18Grid[rapid.IntRange(0, len(c18Grid)-1).Draw(rt, "cancel_at")] + time.Duration(rapid.IntRange(0, 1).Draw(rt, "cancel_half"))*500*time.Microsecond
		}
		failWraps := rapid.SampledFrom([]int{0, 0, 1, 2, 3}).Draw(rt, "failure_error_wraps")
		if cancelAt >= 0 && failWraps == 1 {
			failWraps = 0 // the oracle tells a cancellation return by errors.Is(err, context.Canceled)
		}
		effMax, effDelay, effTimeout := maxc, delay, timeout
		if effMax <= 0 {
			effMax = 3
		}
		if effDelay <= 0 {
			effDelay = time.Second
		}
		if effTimeout <= 0 {
			effTimeout = 30 * time.Second
		}
		byAddr := map[string]int{}
		for i, b := range bs {
			byAddr[strings.NewReplacer("[", "", "]", "").Replace(b.Addr)] = i
		}
		var mu sync.Mutex
		var events []c18Event
		var conns []*fakeConn
		sentinels := make([]error, len(bs))
		for i := range sentinels {
			sentinels[i] = fmt.Errorf("attempt %d failed", i)
			// an attempt's own failure may wrap a context error of its own making (a proxy step
			// with a sub-context, an inner timeout) while Dial's context is alive: it is a
			// failed attempt like any other
			switch failWraps {
			case 1:
				sentinels[i] = fmt.Errorf("attempt %d failed: proxy step: %w", i, context.Canceled)
			case 2:
				sentinels[i] = fmt.Errorf("attempt %d failed: inner budget: %w", i, context.DeadlineExceeded)
			case 3:
				sentinels[i] = fmt.Errorf("attempt %d failed: %w", i, wire.ErrTimeout)
			}
		}
		rejected := make([]bool, len(bs))
		leftBehind, leftSample, leftAt := 0, "", time.Duration(0)
		var retConn *fakeConn
		var retErr error
		var retAt time.Duration
		var leak error
		var viol string
		returned := false
		leak = guard(func() error {
			synctest.Test(t, func(t *testing.T) {
				start := time.Now()
				d := &c18Dialer{MaxConcurrency: maxc, ConcurrencyDelay: delay, Timeout: timeout, Resolver: ech.InsecureGoResolver(), Iface: ifaceT}
				quiet := make(chan struct{}, 1)
				signal := func() {
					select {
					case quiet <- struct{}{}:
					default:
					}
				}
				inflight := 0
				d.DialFunc = func(ctx context.Context, nw, addr string, tc *tls.Config) (*fakeConn, error) {
					mu.Lock()
					inflight++
					mu.Unlock()
					defer func() { mu.Lock(); inflight--; mu.Unlock(); signal() }()
					i, ok := byAddr[strings.NewReplacer("[", "", "]", "").Replace(addr)]
					if !ok {
						mu.Lock()
						viol = fmt.Sprintf("DialFunc called with unknown address %q", addr)
						mu.Unlock()
						return nil, errors.New("unknown")
					}
					b := bs[i]
					kindNow, dNow, evKind := b.Kind, b.D, "start"
					mu.Lock()
					if rejected[i] {
						// dialOne's single retry with the retry configs of the rejection
						kindNow, dNow, evKind = b.Kind2, b.D2, "restart"
						rejected[i] = false
						if tc == nil || string(tc.EncryptedClientHelloConfigList) != "retry-configs" {
							viol = fmt.Sprintf("retry of attempt %d does not use the server's retry configs", i)
						}
					}
					mu.Unlock()
					e := c18Event{Kind: evKind, Target: i, T: time.Since(start), CtxErr: ctx.Err() != nil}
					if dl, ok := ctx.Deadline(); ok {
						e.HasDL, e.Deadline = true, dl.Sub(start)-e.T
					}
					mu.Lock()
					events = append(events, e)
					mu.Unlock()
					finish := func(c *fakeConn, err error) (*fakeConn, error) {
						mu.Lock()
						events = append(events, c18Event{Kind: "finish", Target: i, T: time.Since(start), OK: err == nil, Conn: c})
						mu.Unlock()
						return c, err
					}
					mk := func() *fakeConn {
						c := &fakeConn{id: i}
						mu.Lock()
						conns = append(conns, c)
						mu.Unlock()
						return c
					}
					switch kindNow {
					case "reject_retry":
						tm := time.NewTimer(dNow)
						defer tm.Stop()
						select {
						case <-tm.C:
							mu.Lock()
							rejected[i] = true
							mu.Unlock()
							return nil, fmt.Errorf("%w: %w", sentinels[i], &tls.ECHRejectionError{RetryConfigList: []byte("retry-configs")})
						case <-ctx.Done():
							return finish(nil, fmt.Errorf("%w: %w", sentinels[i], ctx.Err()))
						}
					case "reject_again":
						// the server rejects the retry configs it handed out itself: the one retry is
						// used up, this attempt has failed (with that rejection as its error)
						tm := time.NewTimer(dNow)
						defer tm.Stop()
						select {
						case <-tm.C:
							return finish(nil, fmt.Errorf("%w: %w", sentinels[i], &tls.ECHRejectionError{RetryConfigList: []byte("retry-configs-2")}))
						case <-ctx.Done():
							return finish(nil, fmt.Errorf("%w: %w", sentinels[i], ctx.Err()))
						}
					case "ok", "fail":
						tm := time.NewTimer(dNow)
						defer tm.Stop()
						select {
						case <-tm.C:
							if kindNow == "ok" {
								return finish(mk(), nil)
							}
							return finish(nil, sentinels[i])
						case <-ctx.Done():
							return finish(nil, fmt.Errorf("%w: %w", sentinels[i], ctx.Err()))
						}
					case "hang":
						<-ctx.Done()
						return finish(nil, fmt.Errorf("%w: %w", sentinels[i], ctx.Err()))
					case "ok_ignore_ctx":
						time.Sleep(b.D)
						return finish(mk(), nil)
					default:
						time.Sleep(b.D)
						return finish(nil, sentinels[i])
					}
				}
				ctx, cancel := context.WithCancel(context.Background())
				defer cancel()
				if callerDeadline {
					// the caller's context has a deadline of its own, far beyond anything in this
					// case (9 virtual minutes): each attempt is still bounded by Timeout
					var c2 context.CancelFunc
					ctx, c2 = context.WithDeadline(ctx, start.Add(9*time.Minute))
					defer c2()
				}
				if cancelAt >= 0 {
					go func() { time.Sleep(cancelAt); cancel() }()
				}
				go func() {
					c, err := d.Dial(ctx, network, strings.Join(addrs, ","), nil)
					mu.Lock()
					retConn, retErr, retAt, returned = c, err, time.Since(start), true
					mu.Unlock()
					signal()
				}()
				// long enough for every attempt (<= 5 x (40 s + delays)) to finish
				end := time.NewTimer(10 * time.Minute)
				checked := false
			waiting:
				for {
					select {
					case <-quiet:
						synctest.Wait() // every goroutine of the bubble has settled
						mu.Lock()
						q := returned && inflight == 0
						mu.Unlock()
						if q && !checked {
							// Dial has returned and no attempt is outstanding: nothing of the
							// Dialer may still be alive now (not merely some delay later)
							checked = true
							buf := make([]byte, 1<<16)
							buf = buf[:runtime.Stack(buf, true)]
							for _, g := range strings.Split(string(buf), "\n\n") {
								if strings.Contains(g, "github.com/c2FmZQ/ech.(*Dialer") {
									leftBehind++
									if leftSample == "" {
										leftSample = strings.Join(strings.SplitN(g, "\n", 4)[:min(3, len(strings.SplitN(g, "\n", 4)))], " | ")
									}
								}
							}
							leftAt = time.Since(start)
						}
					case <-end.C:
						break waiting
					}
				}
				synctest.Wait()
			})
			return nil
		})
		rp := map[string]any{"network": network, "targets": bs, "max_concurrency": maxc, "dialer_of_interface_type": ifaceT, "caller_context_has_far_deadline": callerDeadline, "delay": delay.String(), "timeout": timeout.String(), "cancel_at": cancelAt.String()}
		var evs []string
		for _, e := range events {
			evs = append(evs, fmt.Sprintf("%s[%d]@%v ok=%v ctxerr=%v dl=%v", e.Kind, e.Target, e.T, e.OK, e.CtxErr, e.Deadline))
		}
		rp["events"] = evs
		if leak != nil {
			ev.Violation(rt, "C18", rp, "goroutines are still blocked after every attempt has returned (leak) or Dial panicked: %v", strings.SplitN(leak.Error(), "\n", 2)[0])
		}
		if viol != "" {
			ev.Violation(rt, "C18", rp, "%s", viol)
		}
		if leftBehind > 0 {
			ev.Violation(rt, "C18", rp, "%d goroutine(s) of the Dialer are still alive at %v, when Dial has returned and every attempt has returned (e.g. %s)", leftBehind, leftAt, leftSample)
		}
		if !returned {
			ev.Violation(rt, "C18", rp, "Dial did not return within 10 virtual minutes")
		}
		rp["returned_at"] = retAt.String()
		rp["returned_err"] = fmt.Sprint(retErr)
		// dialed targets in order
		var dialable []int
		for i, b := range bs {
			if !b.ErrTarget && !b.Filtered {
				dialable = append(dialable, i)
			}
		}
		var starts, finishes, restarts []c18Event
		var cl0 []string
		for _, e := range events {
			switch e.Kind {
			case "start":
				starts = append(starts, e)
			case "restart":
				restarts = append(restarts, e)
			default:
				finishes = append(finishes, e)
			}
		}
		// 1. order, at most once
		sort.SliceStable(starts, func(i, j int) bool { return starts[i].T < starts[j].T })
		seen := map[int]bool{}
		last := -1
		lastT := time.Duration(-1)
		for _, s := range starts {
			if seen[s.Target] {
				ev.Violation(rt, "C18", rp, "target %d dialed twice", s.Target)
			}
			seen[s.Target] = true
			if s.Target < last && s.T > lastT {
				ev.Violation(rt, "C18", rp, "target %d started (at %v) after target %d (at %v): not in target order", s.Target, s.T, last, lastT)
			}
			if s.Target > last {
				last, lastT = s.Target, s.T
			}
		}
		// targets are consumed in order: the dialed set is a prefix of the dialable list
		for k, s := range starts {
			_ = k
			idx := sort.SearchInts(dialable, s.Target)
			for _, earlier := range dialable[:idx] {
				if !seen[earlier] {
					ev.Violation(rt, "C18", rp, "target %d was dialed although the earlier target %d never was", s.Target, earlier)
				}
			}
		}
		finishOf := map[int]c18Event{}
		for _, f := range finishes {
			finishOf[f.Target] = f
		}
		// 2. concurrency bound (attempts overlapping in a strictly positive interval)
		type pt struct {
			t time.Duration
			d int
		}
		var pts []pt
		for _, s := range starts {
			f, ok := finishOf[s.Target]
			if !ok {
				ev.Violation(rt, "C18", rp, "attempt %d never returned", s.Target)
			}
			pts = append(pts, pt{s.T, +1}, pt{f.T, -1})
		}
		sort.SliceStable(pts, func(i, j int) bool {
			if pts[i].t != pts[j].t {
				return pts[i].t < pts[j].t
			}
			return pts[i].d < pts[j].d // ends before starts at the same instant
		})
		cur := 0
		for _, p := range pts {
			cur += p.d
			if cur > effMax {
				ev.Violation(rt, "C18", rp, "%d attempts in flight at %v, MaxConcurrency is %d", cur, p.t, effMax)
			}
		}
		// 3. stagger: an attempt may start less than ConcurrencyDelay after the previous one only
		// if a failure happened since the previous start, and every failure releases one attempt
		var fails []time.Duration
		for _, f := range finishes {
			if !f.OK {
				fails = append(fails, f.T)
			}
		}
		sort.Slice(fails, func(i, j int) bool { return fails[i] < fails[j] })
		used := make([]bool, len(fails))
		for k := 1; k < len(starts); k++ {
			a, b := starts[k-1], starts[k]
			if b.T >= a.T+effDelay || returnedBefore(retAt, returned, b.T) {
				continue
			}
			errBetween := false
			for i := a.Target + 1; i < b.Target; i++ {
				errBetween = errBetween || bs[i].ErrTarget // its (unobservable) failure releases the next target
			}
			if errBetween {
				continue
			}
			excused := false
			for i, ft := range fails {
				if !used[i] && ft >= a.T && ft <= b.T {
					used[i], excused = true, true
					break
				}
			}
			if !excused {
				ev.Violation(rt, "C18", rp, "attempt %d started at %v, only %v after attempt %d, without a failure in between that had not already released another attempt (ConcurrencyDelay %v)", b.Target, b.T, b.T-a.T, a.Target, effDelay)
			}
		}
		// 4. per-attempt deadline
		for _, s := range starts {
			// the caller's context has no deadline of its own (or one far away), so every attempt gets exactly
			// Timeout from the instant it begins: more is unbounded, less fails attempts early
			if !s.HasDL || s.Deadline != effTimeout {
				ev.Violation(rt, "C18", rp, "attempt %d (begun at %v) runs with a deadline %v after its start (has=%v), Timeout is %v", s.Target, s.T, s.Deadline, s.HasDL, effTimeout)
			}
		}
		// 4b. the retry after an ECH rejection belongs to the same attempt: it ends by the
		// deadline the attempt began with
		startOf := map[int]c18Event{}
		for _, s := range starts {
			startOf[s.Target] = s
		}
		nre := map[int]int{}
		for _, r := range restarts {
			nre[r.Target]++
			s0, ok := startOf[r.Target]
			if !ok || nre[r.Target] > 1 {
				ev.Violation(rt, "C18", rp, "attempt %d retried %d times (started=%v)", r.Target, nre[r.Target], ok)
			}
			if !r.HasDL || r.T+r.Deadline > s0.T+effTimeout {
				ev.Violation(rt, "C18", rp, "the retry of attempt %d after an ECH rejection may run until %v although the attempt began at %v and Timeout is %v", r.Target, r.T+r.Deadline, s0.T, effTimeout)
			}
		}
		if len(restarts) > 0 {
			cl0 = append(cl0, "ech_reject_retry")
		}
		// 9. attempts begun after the outcome see a cancelled context
		for _, s := range starts {
			if s.T > retAt && !s.CtxErr {
				ev.Violation(rt, "C18", rp, "attempt %d began at %v, after Dial returned at %v, with a live context", s.Target, s.T, retAt)
			}
		}
		// 5..8 outcome
		var firstOK *c18Event
		for i := range finishes {
			f := &finishes[i]
			if f.OK && (firstOK == nil || f.T < firstOK.T) {
				firstOK = f
			}
		}
		cancelledFirst := cancelAt >= 0 && (firstOK == nil || cancelAt < firstOK.T)
		cl := cl0
		switch {
		case retErr == nil:
			if retConn == nil {
				ev.Violation(rt, "C18", rp, "Dial returned (nil, nil)")
			}
			var mine *c18Event
			for i := range finishes {
				if finishes[i].Conn == retConn {
					mine = &finishes[i]
				}
			}
			if mine == nil {
				ev.Violation(rt, "C18", rp, "Dial returned a connection that no attempt produced")
			}
			if firstOK != nil && firstOK.T < mine.T {
				ev.Violation(rt, "C18", rp, "Dial returned the connection of attempt %d (completed %v) although attempt %d succeeded earlier (%v)", mine.Target, mine.T, firstOK.Target, firstOK.T)
			}
			if retAt != mine.T {
				ev.Violation(rt, "C18", rp, "Dial returned at %v, its connection was established at %v", retAt, mine.T)
			}
			if cancelAt >= 0 && cancelAt < mine.T {
				ev.Violation(rt, "C18", rp, "Dial returned a connection established at %v although the caller cancelled at %v", mine.T, cancelAt)
			}
		case cancelledFirst && (len(finishes) < len(dialable) || retAt <= cancelAt):
			if !errors.Is(retErr, context.Canceled) && !allFinishedBy(finishes, dialable, cancelAt) {
				ev.Violation(rt, "C18", rp, "caller cancelled at %v before any success; Dial returned %v", cancelAt, retErr)
			}
			if errors.Is(retErr, context.Canceled) && retAt != cancelAt {
				ev.Violation(rt, "C18", rp, "caller cancelled at %v; Dial returned the context error at %v", cancelAt, retAt)
			}
			cl = append(cl, "caller_cancel")
		default:
			if firstOK != nil && !(cancelAt >= 0 && cancelAt <= firstOK.T) {
				ev.Violation(rt, "C18", rp, "attempt %d succeeded at %v but Dial returned error %v", firstOK.Target, firstOK.T, retErr)
			}
			if len(dialable) == 0 && !anyErrTarget(bs) {
				if retErr.Error() != "no address" {
					ev.Violation(rt, "C18", rp, "no target at all: Dial returned %q, want \"no address\"", retErr)
				}
				cl = append(cl, "no_address")
			} else if cancelAt >= 0 && cancelAt == retAt {
				// the caller cancelled at the very instant Dial returned: errors of attempts that
				// ended at that instant may or may not have been collected - any error is fine
				cl = append(cl, "cancel_tie")
			} else if !errors.Is(retErr, context.Canceled) {
				for _, f := range finishes {
					if !f.OK && !errors.Is(retErr, sentinels[f.Target]) {
						ev.Violation(rt, "C18", rp, "joined error %q does not contain the error of attempt %d", retErr, f.Target)
					}
				}
				for _, b := range bs {
					if b.ErrTarget && !errors.Is(retErr, ech.ErrInvalidName) {
						ev.Violation(rt, "C18", rp, "joined error %q does not contain the resolve error of %q", retErr, b.Addr[:20])
					}
				}
				var lastF time.Duration
				for _, f := range finishes {
					if f.T > lastF {
						lastF = f.T
					}
				}
				if len(finishes) > 0 && retAt < lastF {
					ev.Violation(rt, "C18", rp, "Dial returned its error at %v while an attempt was still running (until %v)", retAt, lastF)
				}
				if len(starts) < len(dialable) {
					ev.Violation(rt, "C18", rp, "Dial gave up after %d of %d targets", len(starts), len(dialable))
				}
				cl = append(cl, "all_fail")
			}
		}
		// 6. losers closed
		for _, c := range conns {
			c.mu.Lock()
			closed := c.closed
			c.mu.Unlock()
			if c == retConn && retErr == nil {
				if closed != 0 {
					ev.Violation(rt, "C18", rp, "the connection returned by Dial was closed %d times", closed)
				}
				continue
			}
			if closed == 0 {
				ev.Violation(rt, "C18", rp, "connection established by attempt %d was neither returned nor closed", c.id)
			}
		}
		// classes
		nOK := 0
		hang := 0
		for _, i := range dialable {
			if strings.HasPrefix(bs[i].Kind, "ok") {
				nOK++
			}
			if bs[i].Kind == "hang" {
				hang++
			}
		}
		var okTimes []time.Duration
		for _, f := range finishes {
			if f.OK {
				okTimes = append(okTimes, f.T)
			}
		}
		sort.Slice(okTimes, func(i, j int) bool { return okTimes[i] < okTimes[j] })
		if len(okTimes) >= 2 && okTimes[1]-okTimes[0] <= effDelay {
			cl = append(cl, "two_successes_in_window")
		}
		if len(okTimes) >= 2 {
			cl = append(cl, "late_winner")
		}
		for _, f := range finishes {
			if f.OK && cancelAt >= 0 && f.T > cancelAt {
				cl = append(cl, "success_after_cancel")
			}
		}
		if hang > 0 && hang == len(dialable) {
			cl = append(cl, "all_hang")
		}
		if effMax == 1 && len(dialable) == 5 {
			cl = append(cl, "maxconc1_5targets")
		}
		if anyErrTarget(bs) {
			cl = append(cl, "resolve_error_target")
		}
		var shape []string
		for _, b := range bs {
			shape = append(shape, fmt.Sprintf("%s/%v/%s/%v/%v%v", b.Kind, b.D, b.Kind2, b.D2, b.ErrTarget, b.Filtered))
		}
		rec.Case(fmt.Sprintf("%v|%d|%v|%v|%v|%s", shape, maxc, delay, timeout, cancelAt, network), len(dialable) >= 2 && nOK >= 1, cl, func() any {
			return map[string]any{"targets": shape, "max_concurrency": maxc, "delay": delay.String(), "timeout": timeout.String(), "cancel_at": cancelAt.String(), "events": evs, "returned_at": retAt.String(), "err": fmt.Sprint(retErr)}
		})
	})
}

func returnedBefore(retAt time.Duration, returned bool, t time.Duration) bool {
	return returned && retAt <= t
}

func anyErrTarget(bs []c18Behaviour) bool {
	for _, b := range bs {
		if b.ErrTarget {
			return true
		}
	}
	return false
}

func allFinishedBy(finishes []c18Event, dialable []int, t time.Duration) bool {
	if len(finishes) < len(dialable) {
		return false
	}
	for _, f := range finishes {
		if f.T > t {
			return false
		}
	}
	return true
}

// TestC18Names: target order, completeness and first success for comma-separated lists of
// NAMES whose resolutions overlap (virtual hosts behind one address, the same service
// reached under two names). Attempts are sequential (MaxConcurrency 1, each outcome is
// immediate), so the expected attempt log is exact: hosts in the order listed, each host's
// addresses in answer order, up to and including the first attempt that succeeds.
func TestC18Names(t *testing.T) {
	rec := ev.Get("C18")
	rapid.Check(t, func(t *rapid.T) {
		z := dnsfx.NewZone()
		z.Version = 1
		pool := []net.IP{{192, 0, 2, 1}, {192, 0, 2, 2}, {192, 0, 2, 3}}
		nh := rapid.IntRange(2, 4).Draw(t, "hosts")
		type att struct{ Host, Addr string }
		var entries []string
		var want []att
		okHost := -1
		outcome := make([]string, nh)
		shared := false
		seenAddr := map[string]bool{}
		for i := 0; i < nh; i++ {
			h := fmt.Sprintf("v%d.example", i)
			port := rapid.SampledFrom([]int{443, 443, 8443}).Draw(t, fmt.Sprintf("port%d", i))
			entry := h
			if port != 443 || rapid.Bool().Draw(t, fmt.Sprintf("explicit443_%d", i)) {
				entry = fmt.Sprintf("%s:%d", h, port)
			}
			entries = append(entries, entry)
			ips := rapid.Permutation(pool).Draw(t, fmt.Sprintf("ips%d", i))[:rapid.IntRange(1, 2).Draw(t, fmt.Sprintf("nips%d", i))]
			outcome[i] = rapid.SampledFrom([]string{"fail", "fail", "ok"}).Draw(t, fmt.Sprintf("outcome%d", i))
			for _, ip := range ips {
				z.A[h] = append(z.A[h], dnsfx.ZRec{TTL: 60, IP: ip})
				a := net.JoinHostPort(ip.String(), fmt.Sprint(port))
				if seenAddr[a] {
					shared = true
				}
				seenAddr[a] = true
				if okHost < 0 {
					want = append(want, att{h, a})
					if outcome[i] == "ok" {
						okHost = i
					}
				}
			}
		}
		var mu sync.Mutex
		var log []att
		sentinel := func(a att) error { return fmt.Errorf("attempt %s@%s failed", a.Host, a.Addr) }
		var made []*fakeConn
		d := &ech.Dialer[*fakeConn]{MaxConcurrency: 1, ConcurrencyDelay: time.Duration(rapid.SampledFrom([]int{1, 2, 5}).Draw(t, "delay_ms")) * time.Millisecond} // short: a failure that comes while the next name is being resolved does not shorten the wait
		d.DialFunc = func(ctx context.Context, network, addr string, tc *tls.Config) (*fakeConn, error) {
			if ctx.Err() != nil {
				// begun after the outcome was decided (allowed: it runs under a cancelled context)
				return nil, ctx.Err()
			}
			mu.Lock()
			defer mu.Unlock()
			a := att{tc.ServerName, addr}
			log = append(log, a)
			for i := 0; i < nh; i++ {
				if a.Host == fmt.Sprintf("v%d.example", i) && outcome[i] == "ok" {
					c := &fakeConn{id: len(made)}
					made = append(made, c)
					return c, nil
				}
			}
			return nil, sentinel(a)
		}
		addrArg := strings.Join(entries, ",")
		rp := map[string]any{"addr": addrArg, "zone": z.Describe(), "outcomes": outcome}
		var conn *fakeConn
		var derr error
		withZoneServer(z, nil, func(url string, srv *dnsfx.Server) {
			r, err := ech.NewResolver(url)
			if err != nil {
				t.Fatalf("harness: %v", err)
			}
			r.SetCacheSize(0)
			d.Resolver = r
			ctx, cancel := context.WithTimeout(context.Background(), 30*time.Second)
			defer cancel()
			derr = guard(func() error { var e error; conn, e = d.Dial(ctx, "tcp4", addrArg, nil); return e })
		})
		mu.Lock()
		got := append([]att{}, log...)
		madeNow := append([]*fakeConn{}, made...)
		mu.Unlock()
		// the worker that delivered the winning connection may pick up the next target in the
		// same instant, before Dial has returned and cancelled its context (the virtual-time
		// stage accepts such same-instant starts too): attempts after the first success are
		// not part of the sequence, and the connection returned is the first one made
		if okHost >= 0 {
			for i, a := range got {
				if a.Host == fmt.Sprintf("v%d.example", okHost) {
					got = got[:i+1]
					break
				}
			}
			if len(madeNow) > 1 {
				madeNow = madeNow[:1]
			}
		}
		rp["attempts"] = fmt.Sprint(got)
		if isPanic(derr) {
			ev.Violation(t, "C18", rp, "Dial panicked: %v", derr)
		}
		if fmt.Sprint(got) != fmt.Sprint(want) {
			ev.Violation(t, "C18", rp, "attempts (server name@address, in order) %v, the listed names and their addresses in order give %v", got, want)
		}
		if okHost >= 0 {
			if derr != nil || conn == nil || len(madeNow) != 1 || conn != madeNow[0] {
				ev.Violation(t, "C18", rp, "the attempt for %s succeeded but Dial returned (%v, %v)", entries[okHost], conn, derr)
			}
		} else {
			if derr == nil {
				ev.Violation(t, "C18", rp, "no attempt succeeded but Dial returned a connection")
			}
			for _, a := range want {
				if !strings.Contains(derr.Error(), sentinel(a).Error()) {
					ev.Violation(t, "C18", rp, "joined error %q lacks the error of attempt %s@%s", derr, a.Host, a.Addr)
				}
			}
		}
		cl := []string{"name_list"}
		if shared {
			cl = append(cl, "names_share_an_address")
		}
		rec.Case("names|"+addrArg+"|"+fmt.Sprint(z.Describe(), outcome), shared, cl, func() any {
			return map[string]any{"kind": "name_list", "addr": addrArg, "attempts": fmt.Sprint(got), "err": fmt.Sprint(derr)}
		})
	})
}
