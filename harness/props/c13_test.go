package props

import (
	"bytes"
	"crypto/sha256"
	"fmt"
	"net"
	"strings"
	"testing"

	"github.com/c2FmZQ/ech/dns"
	"golang.org/x/net/dns/dnsmessage"
	"pgregory.net/rapid"

	"verif/harness/dnsfx"
	"verif/harness/ev"
)

func decodeGuard(b []byte) (m *dns.Message, err error) {
	err = guard(func() error { var e error; m, e = dns.DecodeMessage(b); return e })
	return
}

func cloneMsg(m *dns.Message) *dns.Message {
	c := *m
	c.Question = append([]dns.Question{}, m.Question...)
	c.Answer = append([]dns.RR{}, m.Answer...)
	c.Authority = append([]dns.RR{}, m.Authority...)
	c.Additional = append([]dns.RR{}, m.Additional...)
	for i, rr := range c.Additional {
		if o, ok := rr.Data.([]dns.Option); ok {
			c.Additional[i].Data = append([]dns.Option{}, o...)
		}
	}
	return &c
}

func TestC13(t *testing.T) {
	rec := ev.Get("C13")
	rec.Rule("(a) messages over the record types the encoder supports (A, AAAA, NS, CNAME, PTR, OPT, HTTPS with any parameter subset), all header flag/opcode/rcode values, names of 0..127 labels up to 255 wire bytes (root included; question names also in absolute form with a trailing dot), 0..4 records per section: DecodeMessage(Bytes()) == message, and dnsmessage.Parser reads Bytes() completely and agrees. (b) packets built by dnsmessage.Builder with and without compression over A/AAAA/NS/CNAME/PTR/MX/SOA/TXT/SRV/OPT/SVCB/HTTPS/unknown types (names reused so that pointers are emitted, mandatory and unknown SvcParams): DecodeMessage equals the builder's content, ResponseCode equals dnsmessage's extended RCODE. (c) AddPadding: length multiple of 128, same questions, exactly one padding option, other content unchanged, idempotent. distinct = message hash; non-trivial = at least one resource record or a name with 3+ labels")
	rec.Mandatory("question_trailing_dot", "root_question", "root_owner", "https_ge4_params", "compressed_input", "name_wire255", "opt_ext_rcode", "padding", "dir:encode", "dir:foreign")
	rapid.Check(t, func(t *rapid.T) {
		var cl []string
		if rapid.Bool().Draw(t, "direction_encode") {
			cl = append(cl, "dir:encode")
			m := dnsfx.GenMessage(t, "m")
			want := dnsfx.Canon(m)
			// question names may be given in absolute form (trailing dot, "." for the
			// root): the wire form, and hence the decoded message, is the same
			enc := cloneMsg(m)
			for i := range enc.Question {
				if rapid.IntRange(0, 3).Draw(t, fmt.Sprintf("q%d_absolute", i)) == 0 {
					enc.Question[i].Name += "."
					cl = append(cl, "question_trailing_dot")
				}
			}
			var b []byte
			if e := guard(func() error { b = enc.Bytes(); return nil }); e != nil {
				ev.Violation(t, "C13", map[string]any{"message": want}, "Bytes panicked: %v", e)
			}
			rp := map[string]any{"message": want, "bytes": hx(b)}
			// what RR.Bytes returned for one record is the caller's: encoding other records, or the
			// whole message again, leaves it as it was
			if rapid.IntRange(0, 3).Draw(t, "records_encoded_one_by_one") == 0 {
				var kept, copies [][]byte
				for _, sec := range [][]dns.RR{enc.Answer, enc.Authority, enc.Additional} {
					for _, rr := range sec {
						var rb []byte
						if e := guard(func() error { rb = rr.Bytes(); return nil }); e != nil {
							ev.Violation(t, "C13", rp, "RR.Bytes panicked: %v", e)
						}
						kept = append(kept, rb)
						copies = append(copies, append([]byte{}, rb...))
					}
				}
				guard(func() error { enc.Bytes(); return nil })
				for i := range kept {
					if !bytes.Equal(kept[i], copies[i]) {
						ev.Violation(t, "C13", rp, "the bytes RR.Bytes returned for record %d changed when later records were encoded:\n was %x\n now %x", i, copies[i], kept[i])
					}
				}
				if b2 := enc.Bytes(); !bytes.Equal(b2, b) {
					ev.Violation(t, "C13", rp, "Bytes() of the same message differs between two calls")
				}
				if len(kept) >= 2 {
					cl = append(cl, "records_encoded_one_by_one")
				}
			}
			got, err := decodeGuard(b)
			if err != nil {
				ev.Violation(t, "C13", rp, "DecodeMessage(Bytes()) failed: %v", err)
			}
			if g := dnsfx.Canon(got); g != want {
				ev.Violation(t, "C13", map[string]any{"case": rp, "decoded": g}, "DecodeMessage(Bytes()) differs from the message:\n got: %s\nwant: %s", firstDiff(g, want), "")
			}
			x, err := dnsfx.ParseX(b)
			if err != nil {
				ev.Violation(t, "C13", rp, "golang.org/x/net/dns/dnsmessage cannot read Bytes(): %v", err)
			}
			if g := dnsfx.Canon(x.Msg); g != want {
				ev.Violation(t, "C13", map[string]any{"case": rp, "dnsmessage": g}, "dnsmessage reads Bytes() differently: %s", firstDiff(g, want))
			}
			// RFC 6891 6.1.3: upper 8 bits from the first OPT's TTL, lower 4 from the header.
			wantRC := uint16(m.RCode & 0xf)
			ednsV0 := true
			for _, rr := range m.Additional {
				if rr.Type == 41 {
					wantRC |= uint16(rr.TTL>>24) << 4
					ednsV0 = rr.TTL&0x00ff0000 == 0
					break
				}
			}
			if rc := m.ResponseCode(); rc != wantRC || (ednsV0 && rc != x.ExtRCode) {
				ev.Violation(t, "C13", rp, "ResponseCode()=%d, RFC 6891 says %d, dnsmessage extended RCODE=%d (EDNS version 0: %v)", rc, wantRC, x.ExtRCode, ednsV0)
			}
			for _, q := range m.Question {
				if q.Name == "" {
					cl = append(cl, "root_question")
				}
				if len(q.Name) == 253 {
					cl = append(cl, "name_wire255")
				}
			}
			nrr := 0
			for _, sec := range [][]dns.RR{m.Answer, m.Authority, m.Additional} {
				for _, rr := range sec {
					nrr++
					if rr.Name == "" && rr.Type != 41 {
						cl = append(cl, "root_owner")
					}
					if len(rr.Name) == 253 {
						cl = append(cl, "name_wire255")
					}
					if h, ok := rr.Data.(dns.HTTPS); ok {
						n := 0
						for _, c := range []bool{len(h.ALPN) > 0, h.NoDefaultALPN, h.Port > 0, len(h.IPv4Hint) > 0, len(h.ECH) > 0, len(h.IPv6Hint) > 0} {
							if c {
								n++
							}
						}
						if n >= 4 {
							cl = append(cl, "https_ge4_params")
						}
					}
					if rr.Type == 41 && rr.TTL>>24 != 0 {
						cl = append(cl, "opt_ext_rcode")
					}
				}
			}
			// (c) padding
			pm := cloneMsg(got)
			if rapid.Bool().Draw(t, "pad_as_given") {
				pm = cloneMsg(enc)
			}
			if e := guard(func() error { pm.AddPadding(); return nil }); e != nil {
				ev.Violation(t, "C13", rp, "AddPadding panicked: %v", e)
			}
			pb := pm.Bytes()
			if len(pb)%128 != 0 {
				ev.Violation(t, "C13", rp, "after AddPadding the message is %d bytes (not a multiple of 128)", len(pb))
			}
			pd, err := decodeGuard(pb)
			if err != nil {
				ev.Violation(t, "C13", rp, "padded message does not decode: %v", err)
			}
			if fmt.Sprintf("%+v", pd.Question) != fmt.Sprintf("%+v", got.Question) {
				ev.Violation(t, "C13", rp, "padding changed the question section")
			}
			// exactly one padding option; everything else unchanged
			stripped := cloneMsg(pd)
			npad := 0
			optSeen := false
			for i, rr := range stripped.Additional {
				if o, ok := rr.Data.([]dns.Option); ok && rr.Type == 41 && !optSeen {
					optSeen = true
					var keep []dns.Option
					for _, x := range o {
						if x.Code == 12 {
							npad++
						} else {
							keep = append(keep, x)
						}
					}
					stripped.Additional[i].Data = keep
				}
			}
			if npad != 1 {
				ev.Violation(t, "C13", rp, "padded message has %d padding options", npad)
			}
			orig := cloneMsg(got)
			hadOPT := false
			for i, rr := range orig.Additional {
				if o, ok := rr.Data.([]dns.Option); ok && rr.Type == 41 && !hadOPT {
					hadOPT = true
					var keep []dns.Option
					for _, x := range o {
						if x.Code != 12 {
							keep = append(keep, x)
						}
					}
					orig.Additional[i].Data = keep
				}
			}
			if !hadOPT {
				orig.Additional = append(orig.Additional, dns.RR{Type: 41, Class: 4096, Data: []dns.Option{}})
			}
			if a, b := dnsfx.Canon(stripped), dnsfx.Canon(orig); a != b {
				ev.Violation(t, "C13", rp, "AddPadding changed something besides the padding option: %s", firstDiff(a, b))
			}
			pm2 := cloneMsg(pd)
			pm2.AddPadding()
			if l2 := len(pm2.Bytes()); l2 != len(pb) {
				ev.Violation(t, "C13", rp, "AddPadding is not idempotent in length: %d then %d", len(pb), l2)
			}
			cl = append(cl, "padding")
			sum := sha256.Sum256(b)
			three := false
			for _, q := range m.Question {
				three = three || strings.Count(q.Name, ".") >= 2
			}
			rec.Case(hx(sum[:8]), nrr > 0 || three, cl, func() any { return map[string]any{"direction": "encode", "message": want, "bytes": len(b)} })
			return
		}
		// (b) foreign packets
		cl = append(cl, "dir:foreign")
		var pool []string
		h := dnsmessage.Header{ID: uint16(rapid.IntRange(0, 65535).Draw(t, "id")), Response: rapid.Bool().Draw(t, "qr"), OpCode: dnsmessage.OpCode(rapid.IntRange(0, 15).Draw(t, "op")),
			Authoritative: rapid.Bool().Draw(t, "aa"), Truncated: rapid.Bool().Draw(t, "tc"), RecursionDesired: rapid.Bool().Draw(t, "rd"), RecursionAvailable: rapid.Bool().Draw(t, "ra"),
			RCode: dnsmessage.RCode(rapid.IntRange(0, 15).Draw(t, "rcode"))}
		b2u := func(v bool) uint8 {
			if v {
				return 1
			}
			return 0
		}
		want := &dns.Message{ID: h.ID, QR: b2u(h.Response), OpCode: uint8(h.OpCode), AA: b2u(h.Authoritative), TC: b2u(h.Truncated), RD: b2u(h.RecursionDesired), RA: b2u(h.RecursionAvailable), RCode: uint8(h.RCode)}
		var qs []dnsmessage.Question
		for i, n := 0, rapid.IntRange(0, 2).Draw(t, "nq"); i < n; i++ {
			qn := dnsfx.GenXName(t, fmt.Sprintf("q%d", i), pool)
			xn, err := dnsfx.XName(qn)
			if err != nil {
				t.Skip("name not representable in dnsmessage")
			}
			pool = append(pool, qn)
			qt := uint16(rapid.SampledFrom([]int{1, 28, 65, 64, 255}).Draw(t, "qt"))
			qs = append(qs, dnsmessage.Question{Name: xn, Type: dnsmessage.Type(qt), Class: dnsmessage.ClassINET})
			want.Question = append(want.Question, dns.Question{Name: qn, Type: qt, Class: 1})
			if qn == "" {
				cl = append(cl, "root_question")
			}
		}
		var secs [3][]dnsfx.XRecord
		opt := false
		nrr := 0
		for s := 0; s < 3; s++ {
			for i, n := 0, rapid.IntRange(0, 4).Draw(t, fmt.Sprintf("n%d", s)); i < n; i++ {
				x, err := dnsfx.GenXRecord(t, fmt.Sprintf("s%d_%d", s, i), &pool, s == 2 && !opt)
				if err != nil {
					t.Skip("record not representable in dnsmessage")
				}
				if x.Want.Type == 41 {
					opt = true
					if x.Want.TTL>>24 != 0 {
						cl = append(cl, "opt_ext_rcode")
					}
				}
				if x.Want.Name == "" && x.Want.Type != 41 {
					cl = append(cl, "root_owner")
				}
				if hh, ok := x.Want.Data.(dns.HTTPS); ok {
					n := 0
					for _, c := range []bool{len(hh.ALPN) > 0, hh.NoDefaultALPN, hh.Port > 0, len(hh.IPv4Hint) > 0, len(hh.ECH) > 0, len(hh.IPv6Hint) > 0} {
						if c {
							n++
						}
					}
					if n >= 4 {
						cl = append(cl, "https_ge4_params")
					}
				}
				secs[s] = append(secs[s], x)
				nrr++
				switch s {
				case 0:
					want.Answer = append(want.Answer, x.Want)
				case 1:
					want.Authority = append(want.Authority, x.Want)
				default:
					want.Additional = append(want.Additional, x.Want)
				}
			}
		}
		compress := rapid.IntRange(0, 3).Draw(t, "compress") != 0
		pkt, err := dnsfx.BuildX(h, qs, secs, compress)
		if err != nil {
			t.Skip("dnsmessage refuses to build: " + err.Error())
		}
		hasPtr := false
		if compress {
			plain, err := dnsfx.BuildX(h, qs, secs, false)
			hasPtr = err == nil && len(plain) != len(pkt)
			if hasPtr {
				cl = append(cl, "compressed_input")
			}
		}
		// hand-appended additional records whose owner names are compression pointers to
		// the owner field of the record before (a pointer to a pointer, RFC 1035 4.1.4:
		// "a sequence of labels ending with a pointer"), the first pointing at the question
		if len(qs) > 0 && len(pkt) < 0x3000 && rapid.IntRange(0, 2).Draw(t, "pointer_chain") == 0 {
			pkt = append([]byte{}, pkt...)
			cur, prev := want.Question[0].Name, 12
			depth := rapid.IntRange(1, 4).Draw(t, "pointer_chain_depth")
			for i := 0; i < depth; i++ {
				off := len(pkt)
				if i > 0 && len(cur) < 240 && rapid.Bool().Draw(t, fmt.Sprintf("pointer_chain_label%d", i)) {
					pkt = append(pkt, 1, byte('a'+i))
					if cur == "" {
						cur = string(rune('a' + i))
					} else {
						cur = string(rune('a'+i)) + "." + cur
					}
				}
				ip := net.IP{10, 9, byte(i), byte(depth)}
				pkt = append(pkt, 0xc0|byte(prev>>8), byte(prev), 0, 1, 0, 1, 0, 0, 0, byte(30+i), 0, 4)
				pkt = append(pkt, ip...)
				want.Additional = append(want.Additional, dns.RR{Name: cur, Type: 1, Class: 1, TTL: uint32(30 + i), Data: ip})
				prev = off
			}
			ar := int(pkt[10])<<8 | int(pkt[11]) + depth
			pkt[10], pkt[11] = byte(ar>>8), byte(ar)
			hasPtr = true
			nrr += depth
			if depth > 1 {
				cl = append(cl, "pointer_to_pointer")
			}
		}
		if rapid.IntRange(0, 3).Draw(t, "broken_message_decoded_first") == 0 && len(pkt) > 14 {
			// the process has just rejected another message (a reply cut off inside a name, say):
			// what the decoder did with it leaves no trace in the next call
			cut := pkt[:13+uniform(t, "broken_cut", len(pkt)-13)]
			decodeGuard(cut)
			bad := append([]byte{}, pkt...)
			bad[12+uniform(t, "broken_poke", len(bad)-12)] = 0xc0 | byte(rapid.IntRange(0, 63).Draw(t, "broken_ptr"))
			decodeGuard(bad)
			cl = append(cl, "after_a_rejected_message")
		}
		rp := map[string]any{"bytes": hx(pkt), "want": dnsfx.Canon(want), "compressed": hasPtr}
		got, derr := decodeGuard(pkt)
		if derr != nil {
			ev.Violation(t, "C13", rp, "DecodeMessage failed on a packet built by dnsmessage: %v", derr)
		}
		if g, w := dnsfx.Canon(got), dnsfx.Canon(want); g != w {
			ev.Violation(t, "C13", map[string]any{"case": rp, "decoded": g}, "DecodeMessage disagrees with the content given to dnsmessage.Builder: %s", firstDiff(g, w))
		}
		x, err := dnsfx.ParseX(pkt)
		if err != nil {
			t.Fatalf("harness: dnsmessage cannot parse its own packet: %v", err)
		}
		if rc := got.ResponseCode(); rc != x.ExtRCode {
			ev.Violation(t, "C13", rp, "ResponseCode()=%d, dnsmessage extended RCODE=%d", rc, x.ExtRCode)
		}
		sum := sha256.Sum256(pkt)
		rec.Case(hx(sum[:8]), nrr > 0, cl, func() any {
			return map[string]any{"direction": "foreign", "compressed": hasPtr, "message": dnsfx.Canon(want), "bytes": len(pkt)}
		})
	})
}

// firstDiff shows the first differing line of two canonical renderings.
func firstDiff(a, b string) string {
	la, lb := strings.Split(a, "\n"), strings.Split(b, "\n")
	for i := 0; i < len(la) || i < len(lb); i++ {
		var x, y string
		if i < len(la) {
			x = la[i]
		}
		if i < len(lb) {
			y = lb[i]
		}
		if x != y {
			if len(x) > 300 {
				x = x[:300] + "..."
			}
			if len(y) > 300 {
				y = y[:300] + "..."
			}
			return fmt.Sprintf("line %d: got %s | want %s", i, x, y)
		}
	}
	return "(no difference)"
}

func dnsmessageHeader() dnsmessage.Header {
	return dnsmessage.Header{Response: true, RecursionAvailable: true}
}
