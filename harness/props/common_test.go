package props

import (
	"bytes"
	"context"
	"encoding/hex"
	"fmt"
	"io"
	"net"
	"os"
	"runtime/debug"
	"testing"

	"github.com/c2FmZQ/ech"
	"pgregory.net/rapid"

	"verif/harness/ev"
	"verif/harness/hello"
	"verif/harness/wire"
)

func TestMain(m *testing.M) {
	code := m.Run()
	ev.FlushAll()
	os.Exit(code)
}

func echKey(k *hello.Key) ech.Key {
	return ech.Key{Config: k.Config, PrivateKey: k.Priv.Bytes(), SendAsRetry: true}
}

func echKeys(ks ...*hello.Key) []ech.Key {
	var out []ech.Key
	for _, k := range ks {
		out = append(out, echKey(k))
	}
	return out
}

// panicErr wraps a recovered panic of the code under test.
type panicErr struct {
	v     any
	stack string
}

func (p *panicErr) Error() string { return fmt.Sprintf("PANIC: %v\n%s", p.v, p.stack) }

func guard(f func() error) (err error) {
	defer func() {
		if r := recover(); r != nil {
			err = &panicErr{r, string(debug.Stack())}
		}
	}()
	return f()
}

// withDebug makes newConn install a debug callback that formats its arguments (as
// WithDebug(log.Printf) would); a case sets it from a draw and resets it when done.
var withDebug bool

// debugHook, when set together with withDebug, runs inside every debug callback
// (not re-entrantly).
var debugHook func()

// newConn calls ech.NewConn, converting panics into *panicErr.
func newConn(ctx context.Context, tr net.Conn, keys []ech.Key) (c *ech.Conn, err error) {
	err = guard(func() error {
		var e error
		var opts []ech.Option
		split := 0
		if w, ok := tr.(*wire.Conn); ok && len(keys) >= 2 && w.Remaining()%2 == 1 {
			// WithKeys appends: a key list may arrive in several options (decided by the input)
			split = 1 + (w.Remaining()/2)%(len(keys)-1)
		}
		opts = append(opts, keyOptions(keys, split)...)
		if withDebug {
			opts = append(opts, ech.WithDebug(func(f string, a ...any) {
				_ = fmt.Sprintf(f, a...)
				// a debug callback is application code: it may do anything, e.g. be busy with
				// another connection of the same server
				if h := debugHook; h != nil {
					debugHook = nil
					h()
					debugHook = h
				}
			}))
		}
		if !withDebug && nilDebug(tr) {
			opts = append(opts, ech.WithDebug(nil)) // "no debug output": the same as not passing the option
		}
		c, e = ech.NewConn(ctx, tr, opts...)
		return e
	})
	return c, err
}

// optCache, when non-nil, makes newConn hand the same Option values to every connection
// that is given the same key material (a server builds its options once and uses them in
// its accept loop); a case enables it with reuseOptions and drops it when done.
var optCache map[string][]ech.Option

func reuseOptions() func() {
	optCache = map[string][]ech.Option{}
	return func() { optCache = nil }
}

func keyOptions(keys []ech.Key, split int) []ech.Option {
	if keys == nil {
		return nil
	}
	id := fmt.Sprint(split)
	for _, k := range keys {
		id += "|" + string(k.Config) + "|" + string(k.PrivateKey)
	}
	if o, ok := optCache[id]; ok {
		return o
	}
	o := []ech.Option{ech.WithKeys(keys)}
	if split > 0 {
		o = []ech.Option{ech.WithKeys(keys[:split:split]), ech.WithKeys(keys[split:])}
	}
	if optCache != nil {
		optCache[id] = o
	}
	return o
}

// nilDebug decides, as a pure function of the scripted input, whether a call
// also passes WithDebug(nil).
func nilDebug(tr net.Conn) bool {
	w, ok := tr.(*wire.Conn)
	return ok && w.Remaining()%3 == 1
}

// keySnapshot / keysChanged detect writes into the key material handed to NewConn.
func keySnapshot(keys []*hello.Key) [][]byte {
	var out [][]byte
	for _, k := range keys {
		out = append(out, append([]byte{}, k.Config...))
	}
	return out
}

func keysChanged(keys []*hello.Key, snap [][]byte) bool {
	for i, k := range keys {
		if string(k.Config) != string(snap[i]) {
			return true
		}
	}
	return false
}

// readOneRecord reads exactly one TLS record from r using arbitrary buffer sizes.
func readOneRecord(r io.Reader) ([]byte, error) {
	hdr := make([]byte, 5)
	if _, err := io.ReadFull(r, hdr); err != nil {
		return nil, err
	}
	l := int(hdr[3])<<8 | int(hdr[4])
	body := make([]byte, l)
	if _, err := io.ReadFull(r, body); err != nil {
		return append(hdr, body...), err
	}
	return append(hdr, body...), nil
}

// sameRecord compares two records exactly except for the record-layer
// legacy_version (bytes 1-2), which the property allows to be normalised.
func sameRecord(got, want []byte) bool {
	if len(got) != len(want) || len(got) < 5 {
		return false
	}
	return got[0] == want[0] && bytes.Equal(got[3:], want[3:])
}

func hx(b []byte) string { return hex.EncodeToString(b) }

func isPanic(err error) bool { _, ok := err.(*panicErr); return ok }

// drawKey draws a server key (deterministic from the rapid stream).
func drawKey(t *rapid.T, label string, id int, publicName string) *hello.Key {
	seed := make([]byte, 32)
	s := rapid.Uint64().Draw(t, label+"_seed")
	for _, ch := range label { // distinct labels give distinct keys even for equal draws
		s = (s ^ uint64(ch)) * 0x100000001b3
	}
	for i := range seed {
		s = s*6364136223846793005 + 1442695040888963407
		seed[i] = byte(s >> 56)
	}
	if id < 0 {
		id = rapid.IntRange(0, 255).Draw(t, label+"_id")
	}
	suites := rapid.Permutation(hello.AllSuites).Draw(t, label+"_suites")
	n := rapid.IntRange(1, 3).Draw(t, label+"_nsuites")
	k, err := hello.NewKey(seed, uint8(id), publicName, suites[:n])
	if err != nil {
		t.Fatalf("harness: NewKey: %v", err)
	}
	return k
}

var _ = wire.New

// uniform draws an integer in [0,n) that is uniformly spread (rapid's own
// integer generators favour small values).
func uniform(t *rapid.T, label string, n int) int {
	x := rapid.Uint64().Draw(t, label)
	x += 0x9e3779b97f4a7c15
	x = (x ^ (x >> 30)) * 0xbf58476d1ce4e5b9
	x = (x ^ (x >> 27)) * 0x94d049bb133111eb
	x ^= x >> 31
	return int(x % uint64(n))
}

// newConnRaw is newConn without the panic guard (callers guard themselves).
func newConnRaw(tr net.Conn, keys []*hello.Key) (*ech.Conn, error) {
	var opts []ech.Option
	if nilDebug(tr) {
		opts = append(opts, ech.WithDebug(nil))
	}
	if len(keys) >= 2 {
		// WithKeys appends: a key list may arrive in several options
		all := echKeys(keys...)
		opts = append(opts, ech.WithKeys(all[:1]), ech.WithKeys(all[1:]))
	} else if keys != nil {
		opts = append(opts, ech.WithKeys(echKeys(keys...)))
	}
	return ech.NewConn(context.Background(), tr, opts...)
}
