package props

import (
	"context"
	"crypto/sha256"
	"encoding/binary"
	"fmt"
	"io"
	"os"
	"runtime"
	"strings"
	"sync"
	"testing"
	"testing/synctest"
	"time"

	"pgregory.net/rapid"

	"verif/harness/ev"
	"verif/harness/hello"
	"verif/harness/wire"
)

// c08Input is one robustness case: raw byte streams on both sides, an
// operation schedule and the key set.
type c08Input struct {
	Client  []byte
	Backend []byte
	Sched   []byte
	Keys    []*hello.Key
}

func (in c08Input) replay() map[string]any {
	return map[string]any{"keys": keysReplay(in.Keys), "client_stream": hx(in.Client), "backend_stream": hx(in.Backend), "sched": hx(in.Sched), "expect": "robust"}
}

var c08FixedKey = func() *hello.Key {
	seed := sha256.Sum256([]byte("c08 fixed key"))
	k, err := hello.NewKey(seed[:], 0x42, "public.example", hello.AllSuites)
	if err != nil {
		panic(err)
	}
	return k
}()

const c08AllocLimit = 1 << 20 // bytes allocated by one call: 64 maximum-size records

// c08Drive runs one case and returns a description of the first violation ("" if none),
// whether the first record reached the ClientHello handler, and whether ECH was accepted.
func c08Drive(in c08Input, measureAlloc bool) (viol string, reached, accepted bool) {
	tr := wire.New(in.Client, io.EOF)
	si := 0
	next := func() int {
		if si < len(in.Sched) {
			si++
			return int(in.Sched[si-1])
		}
		return 0xff
	}
	if c := next(); c&3 == 1 {
		tr.SetChunks(nil, 1)
	} else if c&3 == 2 {
		tr.SetChunks(nil, 1+(c>>2))
	}
	reached = len(in.Client) >= 6 && in.Client[0] == 22
	var ms0, ms1 runtime.MemStats
	measure := func(f func() error) (error, uint64) {
		if !measureAlloc {
			return guard(f), 0
		}
		runtime.ReadMemStats(&ms0)
		e := guard(f)
		runtime.ReadMemStats(&ms1)
		return e, ms1.TotalAlloc - ms0.TotalAlloc
	}
	var c interface {
		Read([]byte) (int, error)
		Write([]byte) (int, error)
		ECHAccepted() bool
	}
	err, alloc := measure(func() error {
		cc, e := newConnRaw(tr, in.Keys)
		if cc != nil && e == nil {
			c = cc
		}
		return e
	})
	if isPanic(err) {
		return fmt.Sprintf("NewConn panicked: %v", err), reached, false
	}
	if alloc > c08AllocLimit {
		return fmt.Sprintf("NewConn allocated %d bytes", alloc), reached, false
	}
	if err != nil || c == nil {
		return "", reached, false
	}
	accepted = c.ECHAccepted()
	bpos := 0
	readDone, writeDone := false, len(in.Backend) == 0
	zeroReads := 0
	for ops := 0; !(readDone && writeDone); ops++ {
		if ops > 4*(len(in.Client)+len(in.Backend))+64 {
			return fmt.Sprintf("no progress after %d operations", ops), reached, accepted
		}
		s := next()
		if !writeDone && (readDone || s&1 == 1) {
			n := len(in.Backend) - bpos
			if k := s >> 1; k < 100 {
				n = min(n, 1+k)
			}
			b := in.Backend[bpos : bpos+n]
			var k int
			e, alloc := measure(func() error { var e error; k, e = c.Write(b); return e })
			if isPanic(e) {
				return fmt.Sprintf("Write panicked at backend offset %d: %v", bpos, e), reached, accepted
			}
			if alloc > c08AllocLimit+uint64(4*n) {
				return fmt.Sprintf("Write of %d bytes allocated %d bytes", n, alloc), reached, accepted
			}
			if e != nil {
				writeDone = true
				continue
			}
			if k <= 0 {
				return fmt.Sprintf("Write returned (%d, nil) for %d bytes", k, n), reached, accepted
			}
			bpos += k
			writeDone = bpos >= len(in.Backend)
			continue
		}
		bs := 1 + (s>>1)*(s>>1)*2
		buf := make([]byte, bs)
		before := tr.Remaining()
		var n int
		e, alloc := measure(func() error { var e error; n, e = c.Read(buf); return e })
		if isPanic(e) {
			return fmt.Sprintf("Read panicked: %v", e), reached, accepted
		}
		if alloc > c08AllocLimit {
			return fmt.Sprintf("Read allocated %d bytes", alloc), reached, accepted
		}
		if e != nil {
			readDone = true
			continue
		}
		if n == 0 {
			if tr.Remaining() == before {
				zeroReads++
			}
			if zeroReads > 2 {
				return "Read keeps returning (0, nil) without consuming input", reached, accepted
			}
		} else {
			zeroReads = 0
		}
	}
	return "", reached, accepted
}

// watch runs f with a generous wall-clock watchdog: a case normally takes
// microseconds; one that is still running after 60 s is reported as a hang.
func watch(prop string, replay any, f func()) {
	fail := func(msg string) {
		p := ev.WriteReplay(prop, replay, msg)
		fmt.Printf("VERIF-VIOLATION property=%s replay=%s :: %s\n", prop, p, msg)
		ev.FlushAll()
		os.Exit(1)
	}
	done := make(chan struct{})
	go func() {
		defer close(done)
		defer func() {
			// inside a synctest bubble a call that can never return (every goroutine of the
			// bubble blocked for good) surfaces as this panic of synctest.Test
			if r := recover(); r != nil {
				msg := fmt.Sprint(r)
				if strings.Contains(msg, "deadlock: all goroutines in bubble are blocked") {
					fail("the call can never return: every goroutine involved is blocked for good (virtual-time deadlock)")
				}
				if strings.Contains(msg, "main bubble goroutine has exited but blocked goroutines remain") {
					// only a violation when a goroutine is stuck inside the code under test
					buf := make([]byte, 1<<18)
					buf = buf[:runtime.Stack(buf, true)]
					for _, g := range strings.Split(string(buf), "\n\n") {
						if strings.Contains(g, "synctest bubble") && strings.Contains(g, "github.com/c2FmZQ/ech.") {
							fail("a call into the library is still blocked after everything else (contexts cancelled, peers gone) has finished: " + strings.Join(strings.SplitN(g, "\n", 8)[:min(7, len(strings.SplitN(g, "\n", 8)))], " | "))
						}
					}
				}
				panic(r)
			}
		}()
		f()
	}()
	tm := time.NewTimer(60 * time.Second)
	defer tm.Stop()
	tick := time.NewTicker(50 * time.Millisecond)
	defer tick.Stop()
	for {
		select {
		case <-done:
			return
		case <-tick.C:
			var ms runtime.MemStats
			runtime.ReadMemStats(&ms)
			if ms.HeapAlloc > 2<<30 {
				fail(fmt.Sprintf("call still running with %d MiB of heap in use (memory balloon)", ms.HeapAlloc>>20))
			}
		case <-tm.C:
			fail("call did not return within 60 s (hang)")
		}
	}
}

func FuzzConnStream(f *testing.F) {
	// hostile constants
	zl := func(ct byte) []byte { return []byte{ct, 3, 3, 0, 0} }
	plain := &hello.Hello{Version: 0x0303, Random: make([]byte, 32), Suites: []byte{0x13, 0x01}, Compression: []byte{0},
		Exts: []hello.Ext{{Type: 0, Data: hello.SNIExt("public.example")}, {Type: 43, Data: hello.VersionsExt([]uint16{0x0304})}}}
	f.Add(hello.Record(22, 0x0303, plain.Message()), []byte{}, []byte{0}, true)
	for _, ct := range []byte{20, 21, 22, 23} {
		f.Add(append(hello.Record(22, 0x0303, plain.Message()), zl(ct)...), zl(ct), []byte{0, 1, 0, 1}, true)
		f.Add(zl(ct), zl(ct), []byte{0}, false)
	}
	dup := plain.Clone()
	dup.Exts = append(dup.Exts, hello.Ext{Type: hello.ExtECH, Data: hello.ECHOuterExt(1, 1, 0x42, c08FixedKey.Priv.PublicKey().Bytes(), make([]byte, 40))},
		hello.Ext{Type: hello.ExtECH, Data: hello.ECHOuterExt(1, 1, 0x42, c08FixedKey.Priv.PublicKey().Bytes(), make([]byte, 90))})
	f.Add(hello.Record(22, 0x0303, dup.Message()), []byte{}, []byte{0}, true)
	dup2 := plain.Clone()
	dup2.Exts = append(dup2.Exts, hello.Ext{Type: hello.ExtECH, Data: hello.ECHOuterExt(1, 1, 0x42, c08FixedKey.Priv.PublicKey().Bytes(), make([]byte, 90))},
		hello.Ext{Type: hello.ExtECH, Data: hello.ECHOuterExt(1, 1, 0x42, c08FixedKey.Priv.PublicKey().Bytes(), make([]byte, 40))})
	f.Add(hello.Record(22, 0x0303, dup2.Message()), []byte{}, []byte{0}, true)
	f.Add([]byte{22, 3, 3, 0xff, 0xff}, []byte{22, 3, 3, 0xff, 0xff}, []byte{0, 1}, true)
	f.Add(hello.Record(22, 0x0303, plain.Message()), hrrRecord(nil), []byte{0, 1, 0}, true)
	f.Fuzz(func(t *testing.T, client, backend, sched []byte, withKeys bool) {
		if len(client) > 70000 || len(backend) > 70000 || len(sched) > 4096 {
			t.Skip()
		}
		in := c08Input{Client: client, Backend: backend, Sched: sched}
		if withKeys {
			in.Keys = []*hello.Key{c08FixedKey}
		}
		var viol string
		watch("C08", in.replay(), func() { viol, _, _ = c08Drive(in, false) })
		if viol != "" {
			ev.Violation(t, "C08", in.replay(), "%s", viol)
		}
	})
}

// mutateStructured applies structure-aware mutations to a hello: duplicate /
// delete / resize extensions, lie in length fields.
func mutateStructured(t *rapid.T, h *hello.Hello, label string) ([]byte, []string) {
	h = h.Clone()
	var desc []string
	n := rapid.IntRange(1, 3).Draw(t, label+"_nmut")
	lieAt := -1
	var lieVal uint16
	for i := 0; i < n; i++ {
		switch rapid.IntRange(0, 6).Draw(t, label+"_mut") {
		case 0: // duplicate an extension (possibly with another size)
			if len(h.Exts) == 0 {
				continue
			}
			j := uniform(t, label+"_dup", len(h.Exts))
			e := hello.Ext{Type: h.Exts[j].Type, Data: append([]byte{}, h.Exts[j].Data...)}
			switch rapid.IntRange(0, 2).Draw(t, label+"_dupsz") {
			case 1:
				e.Data = e.Data[:len(e.Data)/2]
			case 2:
				e.Data = append(e.Data, hello.GenBytes(t, label+"_dupx", rapid.IntRange(1, 50).Draw(t, label+"_dupn"))...)
			}
			pos := uniform(t, label+"_duppos", len(h.Exts)+1)
			exts := append([]hello.Ext{}, h.Exts[:pos]...)
			exts = append(exts, e)
			h.Exts = append(exts, h.Exts[pos:]...)
			desc = append(desc, fmt.Sprintf("dup(%#x)", e.Type))
		case 1: // delete
			if len(h.Exts) == 0 {
				continue
			}
			j := uniform(t, label+"_del", len(h.Exts))
			desc = append(desc, fmt.Sprintf("del(%#x)", h.Exts[j].Type))
			h.Exts = append(h.Exts[:j], h.Exts[j+1:]...)
		case 2: // truncate extension body
			if len(h.Exts) == 0 {
				continue
			}
			j := uniform(t, label+"_tr", len(h.Exts))
			if len(h.Exts[j].Data) > 0 {
				h.Exts[j].Data = h.Exts[j].Data[:uniform(t, label+"_trn", len(h.Exts[j].Data))]
			}
			desc = append(desc, fmt.Sprintf("trunc(%#x)", h.Exts[j].Type))
		case 3: // random bytes into an extension body
			if len(h.Exts) == 0 {
				continue
			}
			j := uniform(t, label+"_rb", len(h.Exts))
			if len(h.Exts[j].Data) > 0 {
				p := uniform(t, label+"_rbp", len(h.Exts[j].Data))
				h.Exts[j].Data[p] = byte(uniform(t, label+"_rbv", 256))
			}
			desc = append(desc, fmt.Sprintf("poke(%#x)", h.Exts[j].Type))
		case 4: // special extension types with garbage
			ty := []uint16{hello.ExtECH, hello.ExtOuterExtensions, hello.ExtSNI, hello.ExtALPN, hello.ExtSupportedVersions}[uniform(t, label+"_sp", 5)]
			data := hello.GenBytes(t, label+"_spb", rapid.IntRange(0, 12).Draw(t, label+"_spn"))
			if ty == hello.ExtECH {
				switch rapid.IntRange(0, 3).Draw(t, label+"_spech") {
				case 0:
					data = []byte{1}
				case 1:
					data = hello.ECHOuterExt(1, uint16(rapid.IntRange(1, 3).Draw(t, label+"_spa")), c08FixedKey.ID, c08FixedKey.Priv.PublicKey().Bytes(), hello.GenBytes(t, label+"_spp", rapid.IntRange(0, 300).Draw(t, label+"_sppl")))
				}
			}
			pos := uniform(t, label+"_sppos", len(h.Exts)+1)
			exts := append([]hello.Ext{}, h.Exts[:pos]...)
			exts = append(exts, hello.Ext{Type: ty, Data: data})
			h.Exts = append(exts, h.Exts[pos:]...)
			desc = append(desc, fmt.Sprintf("add(%#x)", ty))
		default: // lie in a length field of the serialised message (applied last)
			lieAt = uniform(t, label+"_lie", 1<<16)
			lieVal = []uint16{0, 1, 0xffff, 0x7fff, uint16(uniform(t, label+"_liev", 1<<16))}[uniform(t, label+"_liek", 5)]
			desc = append(desc, "lie")
		}
	}
	msg := h.Message()
	if lieAt >= 0 && len(msg) > 44 {
		// pick a 16-bit aligned position somewhere in the message and overwrite it
		p := 4 + lieAt%(len(msg)-5)
		binary.BigEndian.PutUint16(msg[p:], lieVal)
	}
	return msg, desc
}

func TestC08(t *testing.T) {
	rec := ev.Get("C08")
	rec.Rule("grammar hellos (plain, GREASE, sealed to the server's key) with structure-aware mutations (duplicate/delete/truncate/poke extensions, special extension types with garbage, lies in length fields) applied to the outer hello and - re-sealed with crypto/hpke so that decryption succeeds - to the inner plaintext; followed by generated and garbage record streams on both sides, chunked transport reads, arbitrary buffer sizes. Oracle: no panic, every call returns, no repeated (0,nil) reads, <= 1 MiB allocated per call. distinct = hash of the client bytes; non-trivial = the first record is a handshake record that reaches the ClientHello handler")
	rec.Mandatory("accepted_then_mutated", "outer_mutated", "dup_ech", "garbage_tail", "nontrivial")
	rapid.Check(t, func(t *rapid.T) {
		key := c08FixedKey
		var first []byte
		var cl []string
		var desc []string
		switch rapid.IntRange(0, 3).Draw(t, "base") {
		case 0: // plain / grease hello, mutated
			var echBody []byte
			if rapid.Bool().Draw(t, "grease") {
				kdf := uint16(rapid.SampledFrom([]int{1, 1, 1, 2, 3, 0xffff}).Draw(t, "gkdf"))
				echBody = hello.ECHOuterExt(kdf, uint16(rapid.IntRange(1, 3).Draw(t, "ga")), key.ID, key.Priv.PublicKey().Bytes(), hello.GenBytes(t, "gp", rapid.IntRange(0, 200).Draw(t, "gpl")))
				if kdf != 1 {
					// the operator's config also lists suites with a KDF this library does not
					// implement (HKDF-SHA384/512 are registered HPKE KDFs), and the client picks one
					k2 := *key
					k2.Suites = append(append([]hello.Suite{}, key.Suites...), hello.Suite{KDF: kdf, AEAD: 1}, hello.Suite{KDF: kdf, AEAD: 2}, hello.Suite{KDF: kdf, AEAD: 3})
					k2.Config = hello.ConfigBytes(k2.ID, 0x0020, k2.Priv.PublicKey().Bytes(), k2.Suites, 64, []byte(k2.PublicName))
					key = &k2
					cl = append(cl, "client_picks_unimplemented_kdf")
				}
			}
			h := hello.GenPlain(t, "h", hello.PlainOpts{ECH: echBody, ForceSNI: key.PublicName})
			var msg []byte
			msg, desc = mutateStructured(t, h, "m")
			first = hello.Record(22, 0x0303, msg)
			cl = append(cl, "outer_mutated")
		case 1: // sealed hello, outer mutated after sealing
			tp := hello.GenTuple(t, hello.TupleOpts{PublicName: key.PublicName})
			sl, err := hello.NewSealer(key.Config, key.Priv.PublicKey().Bytes(), key.Suites[uniform(t, "suite", 3)], key.ID)
			if err != nil {
				t.Fatalf("harness: %v", err)
			}
			if _, err := sl.SealOuter(tp.Outer, hello.Encode(hello.Compress(tp.Inner, tp.RunStart, tp.RunLen), make([]byte, tp.Pad)), true); err != nil {
				t.Fatalf("harness: %v", err)
			}
			var msg []byte
			msg, desc = mutateStructured(t, tp.Outer, "m")
			first = hello.Record(22, 0x0303, msg)
			cl = append(cl, "outer_mutated", "sealed_outer_mutated")
		default: // inner plaintext mutated, then sealed authentically
			tp := hello.GenTuple(t, hello.TupleOpts{PublicName: key.PublicName})
			sl, err := hello.NewSealer(key.Config, key.Priv.PublicKey().Bytes(), key.Suites[uniform(t, "suite", 3)], key.ID)
			if err != nil {
				t.Fatalf("harness: %v", err)
			}
			comp := hello.Compress(tp.Inner, tp.RunStart, tp.RunLen)
			comp.SessionID = nil
			var msg []byte
			msg, desc = mutateStructured(t, comp, "m")
			enc := append(msg[4:], make([]byte, tp.Pad)...)
			switch rapid.IntRange(0, 5).Draw(t, "encmut") {
			case 0:
				enc = enc[:uniform(t, "enccut", len(enc)+1)]
				desc = append(desc, "enc_cut")
			case 1:
				for i := 0; i < 3 && len(enc) > 0; i++ {
					enc[uniform(t, "encpoke", len(enc))] = byte(uniform(t, "encval", 256))
				}
				desc = append(desc, "enc_poke")
			}
			m, err := sl.SealOuter(tp.Outer, enc, true)
			if err != nil {
				t.Fatalf("harness: %v", err)
			}
			if len(m) > 16384 {
				t.Skip("too big")
			}
			first = hello.Record(22, 0x0303, m)
			cl = append(cl, "accepted_then_mutated")
		}
		if len(first) > 5+16384 {
			first = first[:5+16384]
			binary.BigEndian.PutUint16(first[3:], 16384)
		}
		for _, d := range desc {
			if d == fmt.Sprintf("dup(%#x)", hello.ExtECH) || d == fmt.Sprintf("add(%#x)", hello.ExtECH) {
				cl = append(cl, "dup_ech")
			}
		}
		// tails: generated records, or garbage
		in := c08Input{Client: first, Keys: []*hello.Key{key}}
		switch rapid.IntRange(0, 5).Draw(t, "nokeys") {
		case 0:
			in.Keys = nil
		case 1, 2:
			// several keys (handed to NewConn in more than one WithKeys option)
			in.Keys = append(in.Keys, drawKey(t, "k_more", rapid.IntRange(0, 255).Draw(t, "k_more_id"), key.PublicName))
			if rapid.Bool().Draw(t, "k_first") {
				in.Keys[0], in.Keys[1] = in.Keys[1], in.Keys[0]
			}
		}
		tail := func(label string) []byte {
			var out []byte
			switch rapid.IntRange(0, 3).Draw(t, label+"_kind") {
			case 0:
			case 1:
				out = hello.GenBytes(t, label+"_garbage", rapid.IntRange(1, 300).Draw(t, label+"_gl"))
				cl = append(cl, "garbage_tail")
			default:
				n := rapid.IntRange(1, 6).Draw(t, label+"_n")
				for i := 0; i < n; i++ {
					ct := byte(20 + rapid.IntRange(0, 4).Draw(t, label+"_ct"))
					l := []int{0, 1, 2, 5, 40, 300}[rapid.IntRange(0, 5).Draw(t, label+"_l")]
					b := hello.GenBytes(t, label+"_b", l)
					if l > 0 && rapid.Bool().Draw(t, label+"_hsish") {
						b[0] = byte(rapid.IntRange(0, 2).Draw(t, label+"_mt"))
					}
					r := hello.Record(ct, 0x0303, b)
					if rapid.IntRange(0, 9).Draw(t, label+"_lielen") == 0 {
						// declared length that lies: weighted on the limits of RFC 8446 5.1/5.2
						// (2^14, 2^14+256, the TLS 1.2 limit 2^14+2048) and their neighbours
						lv := uniform(t, label+"_lv", 1<<16)
						if rapid.IntRange(0, 2).Draw(t, label+"_lvb") != 0 {
							// ... and on the top of the 16-bit range, where header + length no longer fits 16 bits
							lv = []int{16384, 16385, 16386, 16639, 16640, 16641, 16642, 17000, 18431, 18432, 18433, 20000, 32767, 32768, 65535, 65530, 65531, 65532, 65533, 65534, 65531, 65535}[uniform(t, label+"_lvi", 22)]
						}
						binary.BigEndian.PutUint16(r[3:], uint16(lv))
					}
					out = append(out, r...)
				}
			}
			return out
		}
		in.Client = append(in.Client, tail("ctail")...)
		if rapid.Bool().Draw(t, "backend_hrr") {
			in.Backend = append(in.Backend, hrrRecord(hello.GenBytes(t, "hrrsid", rapid.IntRange(0, 32).Draw(t, "hrrsidl")))...)
			if rapid.Bool().Draw(t, "second_hello") {
				h2 := hello.GenPlain(t, "h2", hello.PlainOpts{ECH: hello.ECHOuterExt(1, 1, key.ID, nil, hello.GenBytes(t, "p2", 40))})
				m2, _ := mutateStructured(t, h2, "m2")
				in.Client = append(in.Client, hello.Record(22, 0x0303, m2[:min(len(m2), 16384)])...)
			}
		}
		in.Backend = append(in.Backend, tail("btail")...)
		in.Sched = hello.GenBytes(t, "sched", rapid.IntRange(1, 64).Draw(t, "schedlen"))
		var viol string
		var reached, accepted bool
		watch("C08", in.replay(), func() { viol, reached, accepted = c08Drive(in, true) })
		if viol != "" {
			ev.Violation(t, "C08", in.replay(), "%s (mutations %v)", viol, desc)
		}
		if accepted {
			cl = append(cl, "ech_accepted")
		}
		sum := sha256.Sum256(in.Client)
		rec.Case(hx(sum[:8]), reached, cl, func() any {
			return map[string]any{"mutations": desc, "client_len": len(in.Client), "backend_len": len(in.Backend), "accepted": accepted}
		})
	})
}

// TestC08Retained checks that what a Conn keeps alive does not grow with the
// number of calls: heap in use after GC at the midpoint and at the end of a
// long record stream.
func TestC08Retained(t *testing.T) {
	rec := ev.Get("C08")
	rapid.Check(t, func(t *rapid.T) {
		sc := drawSealed(t, false)
		n := rapid.IntRange(200, 600).Draw(t, "nrecords")
		// a relay whose chunks never end on a record boundary: each write carries the rest of
		// one record and the first byte(s) of the next
		never := rapid.IntRange(0, 2).Draw(t, "writes_never_end_on_a_record_boundary") == 0
		var client, backend []byte
		client = append(client, sc.Record...)
		for i := 0; i < n; i++ {
			ct := byte(20 + rapid.IntRange(0, 2).Draw(t, "ct")) // never application data: inspection stays on
			l := rapid.IntRange(1, 2000).Draw(t, "l")
			if never {
				l = 2000 + uniform(t, "l_big", 6000) // megabytes in all, so that what is kept shows
			}
			b := make([]byte, l)
			b[0] = 9
			client = append(client, hello.Record(ct, 0x0303, b)...)
			backend = append(backend, hello.Record(ct, 0x0303, b)...)
		}
		tr := wire.New(client, io.EOF)
		tr.NoLog = true // the transport keeps nothing of what passes: what stays on the heap is the Conn's
		c, err := newConn(context.Background(), tr, echKeys(sc.Key))
		if err != nil {
			t.Fatalf("harness: %v", err)
		}
		heap := func() uint64 {
			runtime.GC()
			var ms runtime.MemStats
			runtime.ReadMemStats(&ms)
			return ms.HeapAlloc
		}
		buf := make([]byte, 4096)
		base := heap()
		half := len(backend) / 2
		step := rapid.IntRange(1, 3000).Draw(t, "wstep")
		over := rapid.IntRange(1, 4).Draw(t, "bytes_into_next_record")
		var mid uint64
		bpos := 0
		for bpos < len(backend) {
			k := min(step, len(backend)-bpos)
			if never {
				// from bpos (inside or at the start of a record) to `over` bytes into the next record
				for p := 0; p+5 <= len(backend); {
					e := p + 5 + (int(backend[p+3])<<8 | int(backend[p+4]))
					if e > bpos {
						k = min(e+over, len(backend)) - bpos
						break
					}
					p = e
				}
			}
			if _, e := c.Write(backend[bpos : bpos+k]); e != nil {
				ev.Violation(t, "C08", map[string]any{"client_stream_len": len(client)}, "Write failed: %v", e)
			}
			bpos += k
			for i := 0; i < 2; i++ {
				c.Read(buf)
			}
			if mid == 0 && bpos >= half {
				mid = heap()
			}
		}
		end := heap()
		if end > base+(256<<10) {
			ev.Violation(t, "C08", map[string]any{"records": n, "base": base, "end": end, "never_aligned": never}, "heap retained by the Conn grew from %d (before the first Write) to %d bytes after %d bytes were relayed", base, end, len(backend))
		}
		if end > mid+(256<<10) {
			ev.Violation(t, "C08", map[string]any{"records": n, "mid": mid, "end": end}, "heap retained by the Conn grew from %d to %d bytes over %d records", mid, end, n/2)
		}
		runtime.KeepAlive(c)
		runtime.KeepAlive(client) // alive at every measurement, so that what they occupy cancels out
		runtime.KeepAlive(backend)
		rec.Class("retained_checked")
	})
}

// TestC08Stall: the client stalls at every byte offset of the first record;
// NewConn must return an error exactly at the context deadline (virtual time).
func TestC08Stall(t *testing.T) {
	rec := ev.Get("C08")
	rapid.Check(t, func(rt *rapid.T) {
		sc := drawSealed(rt, false)
		record := sc.Record
		if len(record) > 700 && os.Getenv("VERIF_TIER") != "thorough" {
			rt.Skip("long hello: stall sweep only in the thorough tier")
		}
		d := time.Duration(rapid.IntRange(1, 5000).Draw(rt, "deadline_ms")) * time.Millisecond
		kind := rapid.IntRange(0, 1).Draw(rt, "ctxkind")
		// a stalled client may well not be reading either: whatever NewConn writes then
		// blocks until a write deadline
		peerNotReading := rapid.Bool().Draw(rt, "peer_not_reading")
		stall := func(stream []byte, off int, exact bool) {
			var viol string
			// real-time watchdog around the bubble: a read loop that spins (instead of blocking)
			// freezes virtual time, so only wall-clock time can expose it
			watch("C08", map[string]any{"keys": keysReplay([]*hello.Key{sc.Key}), "client_stream": hx(stream), "deadline_ms": d.Milliseconds(), "expect": "stall"}, func() {
				synctest.Test(t, func(t *testing.T) {
					tr := wire.New(stream, nil)
					// (only for stalls inside the record: an alert for an error found at once is written
					// after the context was let go of, and whether that write can block is the
					// transport's business, not part of this property)
					tr.BlockWrites = peerNotReading && exact
					var ctx context.Context
					var cancel context.CancelFunc
					if kind == 0 {
						ctx, cancel = context.WithTimeout(context.Background(), d)
					} else {
						ctx, cancel = context.WithCancel(context.Background())
						go func() { time.Sleep(d); cancel() }()
					}
					defer cancel()
					defer time.Sleep(time.Hour) // let helper goroutines finish inside the bubble
					start := time.Now()
					type res struct {
						err error
						at  time.Duration
					}
					ch := make(chan res, 1)
					go func() {
						_, err := newConn(ctx, tr, echKeys(sc.Key))
						ch <- res{err, time.Since(start)}
					}()
					time.Sleep(d + time.Second)
					synctest.Wait()
					select {
					case r := <-ch:
						if r.err == nil {
							viol = fmt.Sprintf("NewConn succeeded although the client stalled at offset %d", off)
						} else if isPanic(r.err) {
							viol = fmt.Sprintf("panic: %v", r.err)
						} else if exact && r.at != d {
							viol = fmt.Sprintf("NewConn returned after %v, context ended after %v (stall at offset %d)", r.at, d, off)
						} else if r.at > d {
							viol = fmt.Sprintf("NewConn returned after %v, later than its context's end after %v (the client sent a record holding the first %d bytes of its ClientHello and stalled)", r.at, d, off)
						}
					default:
						viol = fmt.Sprintf("NewConn still blocked 1 s after its context ended (stall at offset %d of %d)", off, len(record))
						tr.Close()
						<-ch
					}
				})
			})
			if viol != "" {
				ev.Violation(rt, "C08", map[string]any{"keys": keysReplay([]*hello.Key{sc.Key}), "client_stream": hx(stream), "deadline_ms": d.Milliseconds(), "expect": "stall"}, "%s", viol)
			}
			rec.Class("stall_offset")
		}
		for off := 0; off < len(record); off++ {
			stall(record[:off], off, true)
		}
		// the client may also put only the beginning of its ClientHello into a (complete) first
		// record and stall before the next: however NewConn treats such a hello, it returns
		// an error no later than its context ends
		msg := record[5:]
		for _, m := range []int{1, 4, 5, 1 + uniform(rt, "fragment_at", len(msg)-1), len(msg) - 1} {
			if m > 0 && m < len(msg) {
				stall(hello.Record(22, 0x0303, msg[:m]), m, false)
				rec.Class("stall_after_first_fragment")
			}
		}
		rec.Class("stall_hello")
		if peerNotReading {
			rec.Class("stall_peer_not_reading")
		}
	})
}

func TestC08Replay(t *testing.T) { c08ReplayDoc(t, loadReplay(t)) }

func TestC08Regress(t *testing.T) { regress(t, "C08", c08ReplayDoc) }

func c08ReplayDoc(t *testing.T, doc map[string]any) {
	c := findCase(doc)
	if c == nil {
		t.Fatalf("replay: no case")
	}
	in := c08Input{Client: unhex(t, c["client_stream"])}
	if v, ok := c["backend_stream"]; ok {
		in.Backend = unhex(t, v)
	}
	if v, ok := c["sched"]; ok {
		in.Sched = unhex(t, v)
	}
	for _, k := range replayKeys(t, c) {
		kk, err := hello.NewKey(k.PrivateKey, 0, "x", hello.AllSuites)
		if err != nil {
			t.Fatal(err)
		}
		kk.Config = k.Config
		in.Keys = append(in.Keys, kk)
	}
	var viol string
	watch("C08", in.replay(), func() { viol, _, _ = c08Drive(in, true) })
	if viol != "" {
		t.Fatalf("VERIF-VIOLATION property=C08 replay=%s :: %s", os.Getenv("VERIF_REPLAY_FILE"), viol)
	}
}

// TestC08GenCorpus (VERIF_GEN_CORPUS=1) writes grammar-generated seeds for
// FuzzConnStream: accepted hellos sealed to the fixed key, retry flights,
// GREASE and plain hellos, with record tails.
func TestC08GenCorpus(t *testing.T) {
	if os.Getenv("VERIF_GEN_CORPUS") == "" {
		t.Skip("set VERIF_GEN_CORPUS=1 to regenerate the seed corpus")
	}
	dir := "testdata/fuzz/FuzzConnStream"
	os.MkdirAll(dir, 0o755)
	n := 0
	write := func(client, backend, sched []byte, keys bool) {
		n++
		body := fmt.Sprintf("go test fuzz v1\n[]byte(%q)\n[]byte(%q)\n[]byte(%q)\nbool(%v)\n", client, backend, sched, keys)
		os.WriteFile(fmt.Sprintf("%s/seed-%03d", dir, n), []byte(body), 0o644)
	}
	key := c08FixedKey
	gen := rapid.Custom(func(rt *rapid.T) [3][]byte {
		tp := hello.GenTuple(rt, hello.TupleOpts{PublicName: key.PublicName})
		suite := key.Suites[rapid.IntRange(0, 2).Draw(rt, "suite")]
		sl, err := hello.NewSealer(key.Config, key.Priv.PublicKey().Bytes(), suite, key.ID)
		if err != nil {
			rt.Fatalf("%v", err)
		}
		enc := hello.Encode(hello.Compress(tp.Inner, tp.RunStart, tp.RunLen), make([]byte, tp.Pad%64))
		m1, err := sl.SealOuter(tp.Outer, enc, true)
		if err != nil || len(m1) > 4000 {
			rt.Skip("too big")
		}
		client := hello.Record(22, 0x0303, m1)
		var backend []byte
		switch rapid.IntRange(0, 2).Draw(rt, "flow") {
		case 0: // accepted, then handshake-ish records
			client = append(client, hello.Record(20, 0x0303, []byte{1})...)
			client = append(client, hello.Record(23, 0x0303, []byte("application data"))...)
			backend = append(hello.Record(22, 0x0303, serverHelloMsg(make([]byte, 32), tp.Outer.SessionID, []hello.Ext{{Type: 43, Data: []byte{3, 4}}})), hello.Record(23, 0x0303, []byte("encrypted extensions"))...)
		case 1: // HRR and a well-formed retried hello
			in2 := tp.Inner.Clone()
			out2 := tp.Outer.Clone()
			m2, err := sl.SealOuter(out2, hello.Encode(hello.Compress(in2, tp.RunStart, tp.RunLen), nil), false)
			if err != nil || len(m2) > 4000 {
				rt.Skip("too big")
			}
			client = append(client, hello.Record(20, 0x0303, []byte{1})...)
			client = append(client, hello.Record(22, 0x0303, m2)...)
			backend = hrrRecord(tp.Outer.SessionID)
		default: // HRR and an ill-formed retry (no ECH)
			out2 := tp.Outer.Clone()
			i := out2.Find(hello.ExtECH)
			out2.Exts = append(out2.Exts[:i], out2.Exts[i+1:]...)
			client = append(client, hello.Record(22, 0x0303, out2.Message())...)
			backend = hrrRecord(tp.Outer.SessionID)
		}
		return [3][]byte{client, backend, {0, 1, 0, 1, 0, 0, 1, 0}}
	})
	for i := 0; i < 24; i++ {
		v := gen.Example(i)
		write(v[0], v[1], v[2], true)
	}
	plain := rapid.Custom(func(rt *rapid.T) []byte {
		var echBody []byte
		if rapid.Bool().Draw(rt, "grease") {
			echBody = hello.ECHOuterExt(1, 1, key.ID, key.Priv.PublicKey().Bytes(), hello.GenBytes(rt, "p", 60))
		}
		return hello.Record(22, 0x0303, hello.GenPlain(rt, "h", hello.PlainOpts{ECH: echBody, ForceSNI: key.PublicName}).Message())
	})
	for i := 0; i < 8; i++ {
		write(plain.Example(i), hello.Record(23, 0x0303, []byte("x")), []byte{0, 1}, i%2 == 0)
	}
	t.Logf("wrote %d seeds", n)
}

// TestC08Illegal feeds the Conn authentic-but-illegal hellos (the C04 generator: a payload
// that really opens under the server's key, with 1..3 rule violations injected before or
// after sealing), i.e. inputs that get past decryption into the rarely travelled checking
// code. The oracle here is C08's only: no panic, no hang, bounded allocation.
func TestC08Illegal(t *testing.T) {
	rec := ev.Get("C08")
	rapid.Check(t, func(t *rapid.T) {
		record, key, _, desc, _ := c04Build(t)
		in := c08Input{Keys: []*hello.Key{key}}
		if rapid.Bool().Draw(t, "second_key") {
			in.Keys = append([]*hello.Key{drawKey(t, "k2", int(key.ID), key.PublicName)}, in.Keys...)
		}
		in.Client = append(in.Client, record...)
		for i, n := 0, rapid.IntRange(0, 3).Draw(t, "tail_n"); i < n; i++ {
			in.Client = append(in.Client, hello.Record(byte(20+rapid.IntRange(0, 3).Draw(t, "tail_ct")), 0x0303, hello.GenBytes(t, "tail_b", rapid.IntRange(0, 60).Draw(t, "tail_l")))...)
		}
		in.Sched = hello.GenBytes(t, "sched", rapid.IntRange(1, 32).Draw(t, "schedlen"))
		var viol string
		var accepted bool
		watch("C08", in.replay(), func() { viol, _, accepted = c08Drive(in, true) })
		if viol != "" {
			ev.Violation(t, "C08", in.replay(), "%s (authentic hello with faults %v)", viol, desc)
		}
		cl := []string{"authentic_but_illegal"}
		if accepted {
			cl = append(cl, "ech_accepted")
		}
		sum := sha256.Sum256(in.Client)
		rec.Case(hx(sum[:8]), true, cl, func() any {
			return map[string]any{"kind": "authentic_but_illegal", "faults": desc, "client_len": len(in.Client)}
		})
	})
}

// TestC08Backend: an accepted connection whose BACKEND misbehaves while the write
// side is still inspected: handshake records that look like a ServerHello or a
// HelloRetryRequest but are cut short, lie about their handshake length or carry a
// damaged extension block, written in drawn pieces so that the short record is
// sometimes the very end of what Conn.Write has buffered.
func TestC08Backend(t *testing.T) {
	rec := ev.Get("C08")
	rapid.Check(t, func(t *rapid.T) {
		sc := drawSealed(t, false)
		in := c08Input{Client: append([]byte{}, sc.Record...), Keys: []*hello.Key{sc.Key}}
		var desc []string
		for i, n := 0, rapid.IntRange(1, 4).Draw(t, "n_backend"); i < n; i++ {
			var body []byte
			kind := rapid.IntRange(0, 5).Draw(t, "bkind")
			switch kind {
			case 0, 1: // a real ServerHello / HRR message, cut somewhere
				rnd := hello.GenBytes(t, "sh_random", 32)
				if kind == 1 {
					rnd = hrrRandom
				}
				m := serverHelloMsg(rnd, hello.GenBytes(t, "sh_sid", rapid.IntRange(0, 32).Draw(t, "sh_sidl")), []hello.Ext{{Type: 43, Data: []byte{3, 4}}, {Type: 51, Data: []byte{0, 0x17}}})
				body = m[:uniform(t, "sh_cut", len(m)+1)]
				if rapid.Bool().Draw(t, "keep_declared_len") && len(body) >= 4 {
					// the handshake header still declares the full length
				} else if len(body) >= 4 {
					n := len(body) - 4
					body[1], body[2], body[3] = byte(n>>16), byte(n>>8), byte(n)
				}
			case 2: // bare header with a large declared length
				body = []byte{2, 0, byte(rapid.IntRange(0, 2).Draw(t, "dl_hi")), byte(rapid.IntRange(0, 255).Draw(t, "dl_lo"))}
				body = append(body, hello.GenBytes(t, "after_hdr", rapid.IntRange(0, 40).Draw(t, "after_hdr_len"))...)
			case 3: // ServerHello whose extension block lies
				m := serverHelloMsg(hrrRandom, nil, []hello.Ext{{Type: 43, Data: []byte{3, 4}}})
				m[len(m)-8] ^= byte(1 + rapid.IntRange(0, 254).Draw(t, "ext_len_flip"))
				body = m
			default:
				body = hello.GenBytes(t, "junk", rapid.IntRange(0, 60).Draw(t, "junk_len"))
				if len(body) > 0 {
					body[0] = 2
				}
			}
			desc = append(desc, fmt.Sprintf("kind%d/%d", kind, len(body)))
			in.Backend = append(in.Backend, hello.Record(22, 0x0303, body)...)
			if rapid.IntRange(0, 3).Draw(t, "then_ccs") == 0 {
				in.Backend = append(in.Backend, hello.Record(20, 0x0303, []byte{1})...)
			}
		}
		in.Sched = hello.GenBytes(t, "sched", rapid.IntRange(1, 48).Draw(t, "schedlen"))
		var viol string
		var accepted bool
		watch("C08", in.replay(), func() { viol, _, accepted = c08Drive(in, true) })
		if viol != "" {
			ev.Violation(t, "C08", in.replay(), "%s (backend records %v)", viol, desc)
		}
		if !accepted {
			t.Fatalf("harness: sealed hello not accepted")
		}
		sum := sha256.Sum256(in.Backend)
		rec.Case("backend|"+hx(sum[:8]), true, []string{"hostile_backend_while_inspected"}, func() any {
			return map[string]any{"kind": "hostile_backend", "records": desc}
		})
	})
}

// TestC08Concurrent: a server handles its connections on one goroutine each. Many NewConn
// calls (and the first Read of each) run at once, with key material that is fresh per
// connection or shared by all of them; each must fare exactly as it does alone. The stage
// runs under the race detector: anything the connections share unsafely is reported there
// (a concurrent map write would otherwise take the whole process down).
func TestC08Concurrent(t *testing.T) {
	rec := ev.Get("C08")
	rapid.Check(t, func(t *rapid.T) {
		sc := drawSealed(t, false)
		ng := rapid.IntRange(2, 16).Draw(t, "goroutines")
		per := rapid.IntRange(2, 12).Draw(t, "conns_per_goroutine")
		type job struct {
			keys   []*hello.Key
			accept bool
		}
		jobs := make([][]job, ng)
		for g := range jobs {
			for i := 0; i < per; i++ {
				switch rapid.IntRange(0, 2).Draw(t, "keys") {
				case 0: // the key the hello was sealed to (shared by all such connections)
					jobs[g] = append(jobs[g], job{[]*hello.Key{sc.Key}, true})
				case 1: // a key of this connection's own under the same config id: not the right one
					seed := sha256.Sum256([]byte(fmt.Sprintf("c08conc-%d-%d-%x", g, i, sc.Key.Config)))
					k, err := hello.NewKey(seed[:], sc.Key.ID, sc.Key.PublicName, sc.Key.Suites)
					if err != nil {
						t.Fatalf("harness: %v", err)
					}
					jobs[g] = append(jobs[g], job{[]*hello.Key{k}, false})
				default: // both
					seed := sha256.Sum256([]byte(fmt.Sprintf("c08conc2-%d-%d-%x", g, i, sc.Key.Config)))
					k, err := hello.NewKey(seed[:], sc.Key.ID+1, sc.Key.PublicName, sc.Key.Suites)
					if err != nil {
						t.Fatalf("harness: %v", err)
					}
					jobs[g] = append(jobs[g], job{[]*hello.Key{k, sc.Key}, true})
				}
			}
		}
		var mu sync.Mutex
		viol := ""
		start := make(chan struct{})
		var wg sync.WaitGroup
		for g := range jobs {
			wg.Add(1)
			go func(js []job) {
				defer wg.Done()
				<-start
				for _, j := range js {
					c, err := newConnRaw(wire.New(sc.Record, io.EOF), j.keys)
					msg := ""
					switch {
					case err != nil:
						msg = fmt.Sprintf("NewConn failed: %v", err)
					case c.ECHAccepted() != j.accept:
						msg = fmt.Sprintf("ECHAccepted()=%v, want %v", c.ECHAccepted(), j.accept)
					default:
						got, e := readOneRecord(c)
						want := sc.Record
						if j.accept {
							want = hello.Record(22, 0x0303, sc.WantInner)
						}
						if e != nil || !sameRecord(got, want) {
							msg = fmt.Sprintf("first record differs from what this connection delivers when alone (accepted=%v, err=%v)", j.accept, e)
						}
					}
					if msg != "" {
						mu.Lock()
						viol = msg
						mu.Unlock()
					}
				}
			}(jobs[g])
		}
		close(start)
		wg.Wait()
		if viol != "" {
			ev.Violation(t, "C08", map[string]any{"client_stream": hx(sc.Record), "goroutines": ng}, "%d connections handled at once: %s", ng*per, viol)
		}
		rec.Class("concurrent_newconn")
	})
}
