package props

import (
	"context"
	"errors"
	"fmt"
	"net"
	"os"
	"runtime"
	"testing"
	"testing/synctest"
	"time"

	"pgregory.net/rapid"

	"verif/harness/ev"
	"verif/harness/hello"
	"verif/harness/wire"
)

var errC10Cause = errors.New("listener shutting down")

func TestC10(t *testing.T) {
	rec := ev.Get("C10")
	rec.Rule("per case a synctest bubble (in a third of the cases after two earlier connections of the same process whose NewConn timed out while blocked): hello delivery plan (already buffered, or k chunks arriving at drawn virtual times), context kind (WithCancel / WithTimeout / WithDeadline / cancelled parent), cancellation slot relative to the hello's completion (while blocked, exactly at completion, immediately after NewConn returned, return+epsilon, expiry after return, never), GOMAXPROCS in {1,2,4,8,16}, optional caller deadline on the transport; in the 'while blocked' slot the peer may not be reading, so that a write without a deadline would block forever. After the return the case cancels, calls synctest.Wait() so the watcher goroutine has certainly run, then inspects the transport log and performs I/O, in half of the cases including a HelloRetryRequest round whose retried hello arrives a virtual second later. distinct = (plan, kind, slot, GOMAXPROCS); non-trivial = the context ends within the case")
	rec.Mandatory("slot:blocked", "slot:after_return_now", "slot:after_return_eps", "slot:expire_after", "slot:never", "slot:at_completion", "buffered", "late", "gomaxprocs1", "gomaxprocs16", "hrr_after_context_end", "blocked_and_peer_not_reading", "after_timed_out_predecessors", "sibling_newconn_blocked_on_same_context")
	defer runtime.GOMAXPROCS(runtime.GOMAXPROCS(0))
	rapid.Check(t, func(rt *rapid.T) {
		sc := drawSealed(rt, false)
		record := sc.Record
		procs := []int{1, 2, 4, 8, 16}[rapid.IntRange(0, 4).Draw(rt, "gomaxprocs")]
		nchunks := rapid.IntRange(0, 4).Draw(rt, "nchunks") // 0 = already buffered
		var cuts []int
		var times []time.Duration
		last := time.Duration(0)
		for i := 0; i < nchunks; i++ {
			cuts = append(cuts, uniform(rt, "cut", len(record)))
			last += time.Duration(rapid.IntRange(1, 2000).Draw(rt, "gap_ms")) * time.Millisecond
			times = append(times, last)
		}
		// sort cuts ascending
		for i := range cuts {
			for j := i + 1; j < len(cuts); j++ {
				if cuts[j] < cuts[i] {
					cuts[i], cuts[j] = cuts[j], cuts[i]
				}
			}
		}
		T1 := last // completion time of the hello (0 if buffered)
		slots := []string{"after_return_now", "after_return_now", "after_return_eps", "expire_after", "never"}
		if nchunks > 0 {
			slots = append(slots, "blocked", "blocked", "at_completion")
		}
		slot := slots[uniform(rt, "slot", len(slots))]
		kind := []string{"cancel", "timeout", "deadline", "parent", "timeout_cancelled_early", "deadline_cancelled_early", "cancel_cause", "timeout_cause", "parent_cause"}[rapid.IntRange(0, 8).Draw(rt, "kind")]
		callerDL := rapid.Bool().Draw(rt, "caller_deadline")
		eps := time.Duration(rapid.IntRange(1, 1000).Draw(rt, "eps_us")) * time.Microsecond
		var tc time.Duration // context end time for timer-driven slots
		switch slot {
		case "blocked":
			tc = time.Duration(1+uniform(rt, "tc", int(T1/time.Millisecond))) * time.Millisecond
			if tc >= T1 {
				tc = T1 - time.Millisecond
			}
			if tc <= 0 {
				tc = T1 / 2
			}
		case "at_completion":
			tc = T1
		case "expire_after":
			tc = T1 + eps
		}
		// (every draw happens outside the bubble: rapid aborts a draw by panicking, which only
		// the property's own goroutine recovers)
		far := time.Duration(rapid.IntRange(1, 3600).Draw(rt, "far_s")) * time.Second
		// while NewConn is blocked the peer may not be reading either (it only writes its
		// hello, slowly): anything NewConn writes then blocks until a write deadline
		peerNotReading := slot == "blocked" && rapid.Bool().Draw(rt, "peer_not_reading")
		// connections do not share anything: an earlier NewConn of the same process whose
		// context ended while it was blocked (an ordinary handshake timeout) changes nothing
		predecessor := rapid.IntRange(0, 2).Draw(rt, "predecessor_timed_out") == 0
		sibling := rapid.IntRange(0, 2).Draw(rt, "sibling_newconn_on_same_context") == 0
		// later I/O may include a HelloRetryRequest round: the retried hello is read and
		// decrypted long after the context has ended
		withHRR := rapid.Bool().Draw(rt, "with_hrr")
		ccsBefore := rapid.Bool().Draw(rt, "ccs_before_hello2")
		in2 := sc.Tuple.Inner.Clone()
		in2.Random = hello.GenBytes(rt, "random2", 32)
		out2 := sc.Tuple.Outer.Clone()
		out2.Random = hello.GenBytes(rt, "orandom2", 32)
		msg2, err2 := sc.Sealer.SealOuter(out2, hello.Encode(hello.Compress(in2, sc.Tuple.RunStart, sc.Tuple.RunLen), make([]byte, sc.Tuple.Pad)), false)
		if err2 != nil {
			rt.Fatalf("harness: %v", err2)
		}
		hello2 := hello.Record(22, 0x0303, msg2)
		wantInner2 := hello.Record(22, 0x0303, hello.ExpectedInner(in2, out2).Message())
		runtime.GOMAXPROCS(procs)
		var viol string
		watch("C10", map[string]any{"keys": keysReplay([]*hello.Key{sc.Key}), "client_stream": hx(record), "slot": slot, "kind": kind}, func() {
			synctest.Test(t, func(t *testing.T) {
				// helper goroutines (feeder, cancel timers) must have finished
				// before the bubble's root function returns
				defer time.Sleep(time.Hour)
				if predecessor {
					for i := 0; i < 2; i++ {
						ctx0, cancel0 := context.WithTimeout(context.Background(), time.Duration(i+1)*time.Millisecond)
						tr0 := wire.New(record[:min(len(record), 3*i)], nil)
						_, e0 := newConn(ctx0, tr0, echKeys(sc.Key))
						cancel0()
						if e0 == nil || isPanic(e0) {
							viol = fmt.Sprintf("predecessor connection: NewConn on a stalled client returned %v", e0)
							return
						}
					}
					synctest.Wait()
				}
				start := time.Now()
				var tr *wire.Conn
				if nchunks == 0 {
					tr = wire.New(record, nil)
				} else {
					tr = wire.New(record[:cuts[0]], nil)
					go func() {
						for i := range cuts {
							time.Sleep(start.Add(times[i]).Sub(time.Now()))
							end := len(record)
							if i+1 < len(cuts) {
								end = cuts[i+1]
							}
							tr.Feed(record[cuts[i]:end])
						}
					}()
				}
				tr.BlockWrites = peerNotReading
				var callerDeadline time.Time
				if callerDL {
					callerDeadline = start.Add(time.Hour)
					tr.SetDeadline(callerDeadline)
				}
				var ctx context.Context
				var cancel context.CancelFunc
				timerDriven := slot == "blocked" || slot == "at_completion" || slot == "expire_after"
				switch {
				case kind == "timeout_cancelled_early" || kind == "deadline_cancelled_early":
					// a context that has a (far) deadline of its own but is cancelled before it
					if kind == "timeout_cancelled_early" {
						ctx, cancel = context.WithTimeout(context.Background(), tc+T1+far)
					} else {
						ctx, cancel = context.WithDeadline(context.Background(), start.Add(tc+T1+far))
					}
					if timerDriven {
						go func() { time.Sleep(tc); cancel() }()
					}
				case timerDriven && kind == "timeout":
					ctx, cancel = context.WithTimeout(context.Background(), tc)
				case timerDriven && kind == "deadline":
					ctx, cancel = context.WithDeadline(context.Background(), start.Add(tc))
				case timerDriven && kind == "timeout_cause":
					// contexts that end with a cause of the application's own (Go 1.20/1.21 API)
					ctx, cancel = context.WithTimeoutCause(context.Background(), tc, errC10Cause)
				case kind == "cancel_cause" || kind == "timeout_cause" || kind == "parent_cause":
					cctx, ccancel := context.WithCancelCause(context.Background())
					ctx, cancel = cctx, func() { ccancel(errC10Cause) }
					if kind == "parent_cause" {
						ctx, _ = context.WithCancel(cctx)
					}
					if timerDriven {
						go func() { time.Sleep(tc); ccancel(errC10Cause) }()
					}
				case kind == "parent":
					parent, pcancel := context.WithCancel(context.Background())
					ctx, _ = context.WithCancel(parent)
					cancel = pcancel
					if timerDriven {
						go func() { time.Sleep(tc); pcancel() }()
					}
				default:
					ctx, cancel = context.WithCancel(context.Background())
					if timerDriven {
						go func() { time.Sleep(tc); cancel() }()
					}
				}
				defer cancel()
				if sibling {
					// a server-wide context: another client's NewConn runs under the very same context
					// and is still waiting for its hello when this one returns
					go func() { newConn(ctx, wire.New(nil, nil), echKeys(sc.Key)) }()
					synctest.Wait()
				}
				c, err := newConn(ctx, tr, echKeys(sc.Key))
				ret := time.Since(start)
				tr.MarkReturned()
				if isPanic(err) {
					viol = fmt.Sprintf("panic: %v", err)
					return
				}
				switch slot {
				case "blocked":
					if err == nil {
						viol = fmt.Sprintf("context ended at %v while NewConn was blocked (hello complete at %v) but NewConn succeeded", tc, T1)
					} else if ret != tc {
						viol = fmt.Sprintf("context ended at %v while NewConn was blocked, NewConn returned at %v", tc, ret)
					}
					return
				case "after_return_now":
					cancel()
				case "after_return_eps":
					time.Sleep(eps)
					cancel()
				case "expire_after", "at_completion":
					time.Sleep(2 * eps)
				}
				synctest.Wait()
				if err != nil {
					if slot == "at_completion" {
						return // tie: failing is allowed
					}
					viol = fmt.Sprintf("NewConn failed although its context ended only after the hello was complete (slot %s): %v", slot, err)
					return
				}
				if ret != T1 {
					viol = fmt.Sprintf("NewConn returned at %v, hello complete at %v", ret, T1)
					return
				}
				deadlinesUntouched := func() bool {
					_, events := tr.Snapshot()
					for _, e := range events {
						if e.After && (e.Kind == "setdeadline" || e.Kind == "setreaddeadline" || e.Kind == "setwritedeadline") {
							viol = fmt.Sprintf("%s(%v) on the transport %v after NewConn had returned successfully (slot %s, GOMAXPROCS %d)", e.Kind, e.DL.Sub(start), e.T.Sub(start.Add(ret)), slot, procs)
							return false
						}
					}
					rdl, wdl := tr.Deadlines()
					if !rdl.Equal(callerDeadline) || !wdl.Equal(callerDeadline) {
						viol = fmt.Sprintf("transport deadlines are (%v,%v) after NewConn returned, the caller had set %v", rdl, wdl, callerDeadline)
						return false
					}
					return true
				}
				if !deadlinesUntouched() {
					return
				}
				// later I/O must work
				got, e := readOneRecord(c)
				if e != nil || !sameRecord(got, hello.Record(22, 0x0303, sc.WantInner)) {
					viol = fmt.Sprintf("Read after the context ended failed: %v", e)
					return
				}
				if withHRR {
					if _, e := c.Write(hrrRecord(sc.Tuple.Outer.SessionID)); e != nil {
						viol = fmt.Sprintf("writing a HelloRetryRequest after the context ended failed: %v", e)
						return
					}
					go func() {
						time.Sleep(time.Second)
						if ccsBefore {
							tr.Feed(hello.Record(20, 0x0303, []byte{1}))
						}
						tr.Feed(hello2)
					}()
					if ccsBefore {
						got, e = readOneRecord(c)
						if e != nil || got[0] != 20 {
							viol = fmt.Sprintf("reading the change_cipher_spec before the retried hello failed after the context ended: %v", e)
							return
						}
					}
					got, e = readOneRecord(c)
					if e != nil || !sameRecord(got, wantInner2) {
						viol = fmt.Sprintf("reading the retried hello (after a HelloRetryRequest) long after the context ended failed: %v", e)
						return
					}
					synctest.Wait()
					if !deadlinesUntouched() {
						return
					}
				}
				if _, e := c.Write(hello.Record(23, 0x0303, []byte("pong"))); e != nil {
					viol = fmt.Sprintf("Write after the context ended failed: %v", e)
					return
				}
				next := hello.Record(23, 0x0303, []byte("ping"))
				go func() { time.Sleep(time.Second); tr.Feed(next) }()
				got, e = readOneRecord(c)
				if e != nil || string(got) != string(next) {
					viol = fmt.Sprintf("blocking Read after the context ended failed: %v", e)
					return
				}
				// an idle timeout the caller arms later is reported as what it is: a timeout of
				// the connection, not the fate of a context that no longer has any say
				c.SetReadDeadline(time.Now().Add(3 * time.Second))
				_, e = c.Read(make([]byte, 16))
				var ne net.Error
				if e == nil || !errors.Is(e, os.ErrDeadlineExceeded) || !errors.As(e, &ne) || !ne.Timeout() || errors.Is(e, context.Canceled) || errors.Is(e, context.DeadlineExceeded) && !errors.Is(e, os.ErrDeadlineExceeded) {
					viol = fmt.Sprintf("a read deadline armed by the caller after the context ended made Read return %v (want a timeout error wrapping os.ErrDeadlineExceeded)", e)
					return
				}
			})
		})
		if viol != "" {
			ev.Violation(rt, "C10", map[string]any{"keys": keysReplay([]*hello.Key{sc.Key}), "client_stream": hx(record), "cuts": cuts, "times_ms": times, "slot": slot, "kind": kind, "gomaxprocs": procs, "tc": tc.String(), "caller_deadline": callerDL}, "%s", viol)
		}
		if withHRR && slot != "blocked" {
			rec.Class("hrr_after_context_end")
		}
		if peerNotReading {
			rec.Class("blocked_and_peer_not_reading")
		}
		if predecessor {
			rec.Class("after_timed_out_predecessors")
		}
		if sibling {
			rec.Class("sibling_newconn_blocked_on_same_context")
		}
		cl := []string{"slot:" + slot, "kind:" + kind, fmt.Sprintf("gomaxprocs%d", procs)}
		if nchunks == 0 {
			cl = append(cl, "buffered")
		} else {
			cl = append(cl, "late")
		}
		rec.Case(fmt.Sprintf("%d|%s|%s|%d|%v", nchunks, kind, slot, procs, callerDL), slot != "never", cl, func() any {
			return map[string]any{"chunks": nchunks, "kind": kind, "slot": slot, "gomaxprocs": procs, "caller_deadline": callerDL, "T1": T1.String(), "tc": tc.String()}
		})
	})
}
