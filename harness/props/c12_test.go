package props

import (
	"context"
	"crypto/sha256"
	"encoding/binary"
	"fmt"
	"net"
	"os"
	"runtime"
	"sync"
	"testing"
	"time"

	"github.com/c2FmZQ/ech"
	"github.com/c2FmZQ/ech/dns"
	"pgregory.net/rapid"

	"verif/harness/dnsfx"
	"verif/harness/ev"
	"verif/harness/hello"
)

// c12TypeOK checks the dynamic type of RR.Data against the record type.
func c12TypeOK(rr dns.RR) bool {
	switch rr.Type {
	case 1, 28:
		ip, ok := rr.Data.(net.IP)
		return ok && ((rr.Type == 1 && len(ip) == 4) || (rr.Type == 28 && len(ip) == 16))
	case 2, 5, 12:
		_, ok := rr.Data.(string)
		return ok
	case 6:
		_, ok := rr.Data.(dns.SOA)
		return ok
	case 15:
		_, ok := rr.Data.(dns.MX)
		return ok
	case 16:
		_, ok := rr.Data.(dns.TXT)
		return ok
	case 29:
		_, ok := rr.Data.(dns.LOC)
		return ok
	case 33:
		_, ok := rr.Data.(dns.SRV)
		return ok
	case 37:
		_, ok := rr.Data.(dns.CERT)
		return ok
	case 41:
		_, ok := rr.Data.([]dns.Option)
		return ok
	case 43:
		_, ok := rr.Data.(dns.DS)
		return ok
	case 46:
		_, ok := rr.Data.(dns.RRSIG)
		return ok
	case 47:
		_, ok := rr.Data.(dns.NSEC)
		return ok
	case 48:
		_, ok := rr.Data.(dns.DNSKEY)
		return ok
	case 64:
		_, ok := rr.Data.(dns.SVCB)
		return ok
	case 65:
		_, ok := rr.Data.(dns.HTTPS)
		return ok
	case 256:
		_, ok := rr.Data.(dns.URI)
		return ok
	case 257:
		_, ok := rr.Data.(dns.CAA)
		return ok
	}
	_, ok := rr.Data.([]byte)
	return ok
}

// c12Decode is the C12 oracle for one input. It returns the decoded message (nil on error) and a violation text.
func c12Decode(b []byte, measure bool) (*dns.Message, string) {
	var m *dns.Message
	var err error
	var ms0, ms1 runtime.MemStats
	var viol string
	// the decoder sees the message in a buffer of exactly its size (as dns.DoH allocates
	// it): a read beyond the message then faults instead of silently succeeding
	exact := make([]byte, len(b))
	copy(exact, b)
	b = exact[:len(exact):len(exact)]
	watch("C12", map[string]any{"bytes": hx(b)}, func() {
		if measure {
			runtime.ReadMemStats(&ms0)
		}
		err = guard(func() error { var e error; m, e = dns.DecodeMessage(b); return e })
		if measure {
			runtime.ReadMemStats(&ms1)
		}
	})
	if isPanic(err) {
		return nil, fmt.Sprintf("DecodeMessage panicked: %v", err)
	}
	if measure {
		if alloc, limit := ms1.TotalAlloc-ms0.TotalAlloc, uint64(1<<20+2048*len(b)); alloc > limit {
			return nil, fmt.Sprintf("DecodeMessage allocated %d bytes for a %d-byte input (bound %d)", alloc, len(b), limit)
		}
	}
	// the same message inside a larger buffer (spare capacity filled with junk) decodes
	// identically: nothing beyond len(b) is ever looked at
	{
		big := make([]byte, len(b)+64)
		copy(big, b)
		for i := len(b); i < len(big); i++ {
			big[i] = 0xa5
		}
		var m2 *dns.Message
		err2 := guard(func() error { var e error; m2, e = dns.DecodeMessage(big[:len(b)]); return e })
		if isPanic(err2) {
			return nil, fmt.Sprintf("DecodeMessage panicked: %v", err2)
		}
		if (err == nil) != (err2 == nil) || (err == nil && fmt.Sprintf("%+v", *m) != fmt.Sprintf("%+v", *m2)) {
			return nil, fmt.Sprintf("the result depends on bytes beyond the end of the message (exact buffer: err=%v; buffer with spare capacity: err=%v)", err, err2)
		}
	}
	if err != nil {
		return nil, ""
	}
	total := 0
	for si, sec := range [][]dns.RR{m.Answer, m.Authority, m.Additional} {
		for i, rr := range sec {
			if !c12TypeOK(rr) {
				return nil, fmt.Sprintf("section %d record %d of type %d has data of Go type %T", si, i, rr.Type, rr.Data)
			}
			total += len(rr.Name)
			if len(rr.Name) > 255+127 {
				return nil, fmt.Sprintf("decoded owner name of %d bytes", len(rr.Name))
			}
		}
	}
	for _, q := range m.Question {
		total += len(q.Name)
	}
	if total > 512*len(b)+1024 {
		viol = fmt.Sprintf("decoded names add up to %d bytes for a %d-byte input", total, len(b))
	}
	return m, viol
}

var (
	c12SrvOnce sync.Once
	c12Srv     *dnsfx.Server
	c12Mu      sync.Mutex
)

// c12Resolve serves body as the answer to every query and runs the resolver over it.
func c12Resolve(body []byte) string {
	c12SrvOnce.Do(func() {
		s, err := dnsfx.NewServer(func(dnsfx.Query) (int, []byte) { return 200, nil })
		if err != nil {
			panic(err)
		}
		c12Srv = s
	})
	c12Mu.Lock()
	defer c12Mu.Unlock()
	c12Srv.SetRespond(func(dnsfx.Query) (int, []byte) { return 200, body })
	c12Srv.TakeLog()
	r, err := ech.NewResolver(c12Srv.URL)
	if err != nil {
		return "harness: " + err.Error()
	}
	r.SetCacheSize(0)
	for _, name := range []string{"example.com", "example.com:8443", "foo://example.com"} {
		ctx, cancel := context.WithTimeout(context.Background(), 20*time.Second)
		e := guard(func() error {
			res, e := r.Resolve(ctx, name)
			if e == nil {
				for range res.Targets("tcp") {
				}
			}
			return e
		})
		cancel()
		if isPanic(e) {
			return fmt.Sprintf("Resolve(%q) panicked on this DoH body: %v", name, e)
		}
	}
	return ""
}

// svcParamMessage crafts a response whose LAST record is an HTTPS/SVCB record with
// an arbitrary SvcParams block: any keys in any order (repeats included), value
// lengths around the sizes the known keys imply (0, 1, 2, 4, 16 and their
// neighbours and multiples), inner length bytes that may lie. The block ends
// exactly where the message ends.
func svcParamMessage(t *rapid.T) []byte {
	msg := make([]byte, 12)
	msg[2] = 0x81
	binary.BigEndian.PutUint16(msg[4:], 1)
	nbefore := rapid.IntRange(0, 2).Draw(t, "sp_before")
	binary.BigEndian.PutUint16(msg[6:], uint16(1+nbefore))
	msg = append(msg, 3, 'w', 'w', 'w', 7, 'e', 'x', 'a', 'm', 'p', 'l', 'e', 0, 0, 65, 0, 1)
	for i := 0; i < nbefore; i++ {
		msg = append(msg, 0xc0, 12, 0, 1, 0, 1, 0, 0, 0, 60, 0, 4, 192, 0, 2, byte(i))
	}
	var params []byte
	for i, n := 0, rapid.IntRange(0, 6).Draw(t, "sp_n"); i < n; i++ {
		key := rapid.SampledFrom([]int{0, 1, 2, 3, 4, 5, 6, 7, 8, 4, 6, 4, 6, 1, 65535}).Draw(t, "sp_key")
		l := rapid.SampledFrom([]int{0, 1, 2, 3, 4, 5, 7, 8, 9, 12, 15, 16, 17, 20, 24, 31, 32, 33, 40, 48}).Draw(t, "sp_len")
		v := hello.GenBytes(t, "sp_val", l)
		switch {
		case key == 1 && l > 0 && rapid.IntRange(0, 2).Draw(t, "sp_alpn_ok") != 0:
			// alpn: length-prefixed ids that tile the value, the last one possibly lying
			for p := 0; p < l; {
				k := min(l-p-1, rapid.IntRange(0, 6).Draw(t, "sp_alpn_l"))
				v[p] = byte(k)
				p += 1 + k
			}
			if rapid.IntRange(0, 3).Draw(t, "sp_alpn_lie") == 0 {
				v[0] = byte(rapid.IntRange(0, 255).Draw(t, "sp_alpn_liev"))
			}
		case key == 0 && l >= 2:
			for p := 0; p+1 < l; p += 2 {
				v[p], v[p+1] = 0, byte(rapid.IntRange(0, 8).Draw(t, "sp_mand"))
			}
		}
		params = append(params, byte(key>>8), byte(key), byte(l>>8), byte(l))
		params = append(params, v...)
	}
	if len(params) >= 4 && rapid.IntRange(0, 5).Draw(t, "sp_len_lie") == 0 {
		// the last parameter's declared length disagrees with what is left
		last := 0
		for p := 0; p+4 <= len(params); {
			last = p
			p += 4 + int(params[p+2])<<8 | int(params[p+3])
		}
		d := rapid.IntRange(-2, 3).Draw(t, "sp_len_delta")
		nl := max(0, (int(params[last+2])<<8|int(params[last+3]))+d)
		params[last+2], params[last+3] = byte(nl>>8), byte(nl)
	}
	ty := rapid.SampledFrom([]int{65, 65, 65, 64}).Draw(t, "sp_type")
	rd := append([]byte{0, byte(rapid.IntRange(0, 2).Draw(t, "sp_prio"))}, 0)
	if rapid.Bool().Draw(t, "sp_target") {
		rd = append(rd[:2], 0xc0, 12)
	}
	rd = append(rd, params...)
	msg = append(msg, 0xc0, 12, byte(ty>>8), byte(ty), 0, 1, 0, 0, 0, 60, byte(len(rd)>>8), byte(len(rd)))
	return append(msg, rd...)
}

// advMessage crafts a message whose names are built from fragments chained by
// compression pointers (self, cycles, chains, forward, arbitrary offsets).
func advMessage(t *rapid.T) ([]byte, []string) {
	nf := rapid.IntRange(1, 24).Draw(t, "nfrag")
	type frag struct {
		labels [][]byte
		end    int // -1 terminator, -2 raw pointer, >=0 fragment index
		raw    int
		off    int
	}
	frags := make([]frag, nf)
	var cl []string
	chainMode := rapid.IntRange(0, 4).Draw(t, "chain_mode")
	for i := range frags {
		nl := rapid.IntRange(0, 3).Draw(t, "nlabels")
		for j := 0; j < nl; j++ {
			frags[i].labels = append(frags[i].labels, hello.GenBytes(t, "label", rapid.IntRange(1, 6).Draw(t, "labellen")))
		}
		switch chainMode {
		case 0: // long backward chain: i -> i-1
			frags[i].end = i - 1
		case 1: // random targets: cycles, self, forward
			frags[i].end = rapid.IntRange(-2, nf-1).Draw(t, "end")
		case 2: // all point to self or next (forward)
			frags[i].end = min(i+rapid.IntRange(0, 1).Draw(t, "fwd"), nf-1)
		default:
			frags[i].end = rapid.IntRange(-1, nf-1).Draw(t, "end2")
		}
		if frags[i].end == -2 {
			frags[i].raw = rapid.IntRange(0, 0x3fff).Draw(t, "rawptr")
		}
	}
	size := func(f frag) int {
		n := 0
		for _, l := range f.labels {
			n += 1 + len(l)
		}
		if f.end == -1 {
			return n + 1
		}
		return n + 2
	}
	// layout: header, question (fragment 0 inline), RR0 (type 99) holding fragments 1.., then records referencing fragments
	off := 12
	frags[0].off = off
	off += size(frags[0]) + 4
	rr0 := off
	off += 1 + 10 // root owner + fixed fields
	for i := 1; i < nf; i++ {
		frags[i].off = off
		off += size(frags[i])
	}
	enc := func(f frag) []byte {
		var b []byte
		for _, l := range f.labels {
			b = append(b, byte(len(l)))
			b = append(b, l...)
		}
		switch {
		case f.end == -1:
			b = append(b, 0)
		case f.end == -2:
			b = append(b, 0xc0|byte(f.raw>>8), byte(f.raw))
		default:
			o := frags[f.end].off
			b = append(b, 0xc0|byte(o>>8), byte(o))
		}
		return b
	}
	nrec := rapid.IntRange(0, 6).Draw(t, "nrec")
	msg := make([]byte, 12)
	binary.BigEndian.PutUint16(msg[4:], 1)
	binary.BigEndian.PutUint16(msg[6:], uint16(1+nrec))
	msg = append(msg, enc(frags[0])...)
	msg = append(msg, 0, 1, 0, 1)
	_ = rr0
	var blob []byte
	for i := 1; i < nf; i++ {
		blob = append(blob, enc(frags[i])...)
	}
	msg = append(msg, 0, 0, 99, 0, 1, 0, 0, 0, 0, byte(len(blob)>>8), byte(len(blob)))
	msg = append(msg, blob...)
	ptr := func(label string) []byte {
		j := rapid.IntRange(0, nf-1).Draw(t, label)
		o := frags[j].off
		return []byte{0xc0 | byte(o>>8), byte(o)}
	}
	for i := 0; i < nrec; i++ {
		owner := ptr("owner")
		ty := rapid.SampledFrom([]int{2, 5, 12, 15, 6, 33, 64, 65, 46, 47, 1, 28, 16, 41, 257, 256, 29, 37, 43, 48}).Draw(t, "rtype")
		var rd []byte
		switch ty {
		case 2, 5, 12:
			rd = ptr("rd")
		case 15:
			rd = append([]byte{0, 10}, ptr("rd")...)
		case 6:
			rd = append(append(ptr("rd1"), ptr("rd2")...), make([]byte, 20)...)
		case 33:
			rd = append([]byte{0, 1, 0, 2, 0, 3}, ptr("rd")...)
		case 64, 65:
			rd = append([]byte{0, byte(rapid.IntRange(0, 2).Draw(t, "prio"))}, ptr("rd")...)
			if rapid.Bool().Draw(t, "params") {
				rd = append(rd, 0, 1, 0, 3, 2, 'h', '2', 0, 3, 0, 2, 1, 187)
			}
		case 46:
			rd = append(make([]byte, 18), ptr("rd")...)
			rd = append(rd, 1, 2, 3)
		case 47:
			rd = append(ptr("rd"), 0, 1, 0x40)
		default:
			rd = hello.GenBytes(t, "rdata", rapid.IntRange(0, 24).Draw(t, "rdlen"))
			if ty == 1 {
				rd = rd[:min(len(rd), 4)]
			}
		}
		msg = append(msg, owner...)
		msg = append(msg, byte(ty>>8), byte(ty), 0, 1, 0, 0, 0, 60, byte(len(rd)>>8), byte(len(rd)))
		msg = append(msg, rd...)
	}
	switch chainMode {
	case 0:
		if nf >= 16 {
			cl = append(cl, "chain_ge16")
		}
	case 1, 3:
		// detect a cycle among fragments
		for i := range frags {
			seen := map[int]bool{}
			j := i
			for j >= 0 && !seen[j] {
				seen[j] = true
				j = frags[j].end
			}
			if j >= 0 {
				cl = append(cl, "cycle")
				break
			}
		}
	case 2:
		cl = append(cl, "forward_pointer")
	}
	return msg, cl
}

// ednsMessage crafts a well-formed RESPONSE (QR set, any RCODE, the question echoed,
// a few address records) whose additional section ends in an OPT record carrying
// EDNS options of any code - extended errors (15), cookies, NSID, padding, private
// codes - with payloads of 0..3 and a few longer lengths; the option lengths are
// honest, so the message decodes and the resolver gets to look at the options.
func ednsMessage(t *rapid.T) []byte {
	msg := make([]byte, 12)
	msg[2] = 0x81                                                                                   // QR, RD
	msg[3] = 0x80 | byte(rapid.SampledFrom([]int{0, 0, 1, 2, 3, 4, 5, 6, 9}).Draw(t, "edns_rcode")) // RA + RCODE
	qt := rapid.SampledFrom([]int{1, 28, 65}).Draw(t, "edns_qtype")
	binary.BigEndian.PutUint16(msg[4:], 1)
	msg = append(msg, 7, 'e', 'x', 'a', 'm', 'p', 'l', 'e', 3, 'c', 'o', 'm', 0, 0, byte(qt), 0, 1)
	nans := rapid.IntRange(0, 2).Draw(t, "edns_nans")
	for i := 0; i < nans; i++ {
		msg = append(msg, 0xc0, 12, 0, 1, 0, 1, 0, 0, 0, 60, 0, 4, 192, 0, 2, byte(i+1))
	}
	binary.BigEndian.PutUint16(msg[6:], uint16(nans))
	var opts []byte
	for i, n := 0, rapid.IntRange(0, 4).Draw(t, "edns_nopts"); i < n; i++ {
		code := rapid.SampledFrom([]int{15, 15, 15, 3, 8, 10, 11, 12, 14, 65001, 0}).Draw(t, "edns_code")
		l := rapid.SampledFrom([]int{0, 1, 2, 3, 4, 8, 24, 40}).Draw(t, "edns_optlen")
		d := hello.GenBytes(t, "edns_optdata", l)
		opts = append(opts, byte(code>>8), byte(code), byte(l>>8), byte(l))
		opts = append(opts, d...)
	}
	ext := byte(rapid.SampledFrom([]int{0, 0, 1, 2, 255}).Draw(t, "edns_ext_rcode"))
	msg = append(msg, 0, 0, 41, 4, 208, ext, 0, 0, 0, byte(len(opts)>>8), byte(len(opts)))
	msg = append(msg, opts...)
	binary.BigEndian.PutUint16(msg[10:], 1)
	return msg
}

func TestC12(t *testing.T) {
	rec := ev.Get("C12")
	rec.Rule("inputs: (a) crafted messages whose names are chains of fragments linked by compression pointers (backward chains up to 24 deep, cycles, self pointers, forward pointers, arbitrary offsets) referenced from question, owner names and the RDATA of NS/CNAME/PTR/MX/SOA/SRV/SVCB/HTTPS/RRSIG/NSEC records; (a2) responses whose last record is an HTTPS/SVCB record with an arbitrary SvcParams block (any keys, repeats, value lengths around 0/1/2/4/16 and their multiples, lying inner lengths) ending exactly at the end of the message; (b) valid messages (C13 generators, both codecs) with adversarial edits: a name replaced by a pointer to any offset, count fields rewritten, 16-bit fields overwritten (lying RDLENGTH), truncation; every tenth decoded message is served as the DoH body to a Resolver. Oracle: the decoder gets a buffer of exactly the message's size and, for comparison, the same bytes inside a larger junk-filled buffer (identical outcome required); returns within the watchdog, no panic, allocations <= 1 MiB + 2 KiB per input byte, decoded names bounded, RR data has the Go type its record type implies, Resolve/Targets do not panic. distinct = input hash; non-trivial = input holds a compression pointer or a count/length that disagrees with the data")
	rec.Mandatory("cycle", "chain_ge16", "forward_pointer", "lying_count", "decoded_ok", "resolver_driven", "edited_valid", "crafted_svcparams", "crafted_edns_response")
	thorough := os.Getenv("VERIF_TIER") == "thorough"
	rapid.Check(t, func(t *rapid.T) {
		var b []byte
		var cl []string
		nontrivial := true
		forceResolve := false
		switch rapid.IntRange(0, 4).Draw(t, "source") {
		case 0:
			b, cl = advMessage(t)
			cl = append(cl, "crafted")
		case 3:
			b = svcParamMessage(t)
			cl = append(cl, "crafted_svcparams")
		case 4:
			b = ednsMessage(t)
			cl = append(cl, "crafted_edns_response")
			forceResolve = true
		default:
			if rapid.Bool().Draw(t, "own_encoder") {
				b = dnsfx.GenMessage(t, "m").Bytes()
			} else {
				var pool []string
				var secs [3][]dnsfx.XRecord
				for s := 0; s < 3; s++ {
					for i, n := 0, rapid.IntRange(0, 3).Draw(t, "n"); i < n; i++ {
						if x, err := dnsfx.GenXRecord(t, fmt.Sprintf("r%d_%d", s, i), &pool, false); err == nil {
							secs[s] = append(secs[s], x)
						}
					}
				}
				pkt, err := dnsfx.BuildX(dnsmessageHeader(), nil, secs, true)
				if err != nil {
					t.Skip("builder refused")
				}
				b = pkt
			}
			b = append([]byte{}, b...)
			cl = append(cl, "edited_valid")
			nontrivial = false
			for i, n := 0, rapid.IntRange(1, 3).Draw(t, "nedits"); i < n && len(b) > 12; i++ {
				switch rapid.IntRange(0, 3).Draw(t, "edit") {
				case 0: // pointer to any offset at any position
					p := 12 + uniform(t, "ptrpos", len(b)-12)
					if p+1 < len(b) {
						target := uniform(t, "ptrtarget", len(b)+4)
						if rapid.IntRange(0, 3).Draw(t, "ptrself") == 0 {
							target = p - rapid.IntRange(0, 3).Draw(t, "ptrback")
						}
						if target < 0 {
							target = 0
						}
						b[p], b[p+1] = 0xc0|byte(target>>8), byte(target)
						nontrivial = true
					}
				case 1: // counts
					c := 4 + 2*rapid.IntRange(0, 3).Draw(t, "count")
					binary.BigEndian.PutUint16(b[c:], uint16(rapid.SampledFrom([]int{0, 1, 2, 255, 0xffff, 7}).Draw(t, "countv")))
					cl = append(cl, "lying_count")
					nontrivial = true
				case 2: // overwrite a 16-bit field
					p := 12 + uniform(t, "liepos", len(b)-12)
					if p+1 < len(b) {
						binary.BigEndian.PutUint16(b[p:], uint16(rapid.SampledFrom([]int{0, 1, 0xffff, 0x7fff, 300}).Draw(t, "liev")))
						nontrivial = true
					}
				default:
					b = b[:uniform(t, "cut", len(b)+1)]
				}
			}
		}
		for i := 12; i+1 < len(b); i++ {
			if b[i]&0xc0 == 0xc0 {
				nontrivial = true
				break
			}
		}
		m, viol := c12Decode(b, true)
		if viol != "" {
			ev.Violation(t, "C12", map[string]any{"bytes": hx(b)}, "%s", viol)
		}
		if m != nil {
			cl = append(cl, "decoded_ok")
			if thorough || forceResolve || rapid.IntRange(0, 9).Draw(t, "resolve") == 0 {
				if v := c12Resolve(b); v != "" {
					ev.Violation(t, "C12", map[string]any{"bytes": hx(b), "stage": "resolver"}, "%s", v)
				}
				cl = append(cl, "resolver_driven")
			}
		}
		sum := sha256.Sum256(b)
		rec.Case(hx(sum[:8]), nontrivial, cl, func() any {
			return map[string]any{"bytes": hx(b[:min(len(b), 96)]), "len": len(b), "decoded": m != nil, "classes": cl}
		})
	})
}

func FuzzDecodeMessage(f *testing.F) {
	f.Add([]byte{0, 0, 0, 0, 0, 1, 0, 0, 0, 0, 0, 0, 1, 'a', 0xc0, 0x0c})                                                                       // label then pointer back to the label
	f.Add([]byte{0, 0, 0, 0, 0, 1, 0, 0, 0, 0, 0, 0, 0xc0, 0x0c, 0, 1, 0, 1})                                                                   // pointer to self
	f.Add([]byte{0, 0, 0, 0, 0, 1, 0, 0, 0, 0, 0, 0, 0xc0, 0x0e, 0xc0, 0x0c, 0, 1, 0, 1})                                                       // two-pointer cycle
	f.Add([]byte{0, 0, 0, 0, 0xff, 0xff, 0xff, 0xff, 0xff, 0xff, 0xff, 0xff})                                                                   // counts without data
	f.Add([]byte{0, 0, 0x81, 0x80, 0, 1, 0, 1, 0, 0, 0, 0, 1, 'a', 0, 0, 1, 0, 1, 0xc0, 0x0c, 0, 1, 0, 1, 0, 0, 0, 60, 0xff, 0xff, 1, 2, 3, 4}) // RDLENGTH beyond the end
	m := &dns.Message{ID: 1, QR: 1, Question: []dns.Question{{Name: "example.com", Type: 65, Class: 1}},
		Answer: []dns.RR{{Name: "example.com", Type: 65, Class: 1, TTL: 60, Data: dns.HTTPS{Priority: 1, ALPN: []string{"h2"}, ECH: []byte{1, 2, 3}, IPv4Hint: []net.IP{{1, 2, 3, 4}}}},
			{Name: "example.com", Type: 5, Class: 1, TTL: 60, Data: "a.example.com"}, {Name: "a.example.com", Type: 1, Class: 1, TTL: 60, Data: net.IP{1, 2, 3, 4}}}}
	f.Add(m.Bytes())
	f.Fuzz(func(t *testing.T, b []byte) {
		if len(b) > 65535 {
			t.Skip()
		}
		if _, viol := c12Decode(b, false); viol != "" {
			ev.Violation(t, "C12", map[string]any{"bytes": hx(b)}, "%s", viol)
		}
	})
}

func TestC12Replay(t *testing.T) { c12ReplayDoc(t, loadReplay(t)) }

func TestC12Regress(t *testing.T) { regress(t, "C12", c12ReplayDoc) }

func c12ReplayDoc(t *testing.T, doc map[string]any) {
	c, _ := doc["case"].(map[string]any)
	b := unhex(t, c["bytes"])
	m, viol := c12Decode(b, true)
	if viol == "" && m != nil {
		viol = c12Resolve(b)
	}
	if viol != "" {
		t.Fatalf("VERIF-VIOLATION property=C12 replay=%s :: %s", os.Getenv("VERIF_REPLAY_FILE"), viol)
	}
}

// TestC12GenCorpus (VERIF_GEN_CORPUS=1) writes seeds for FuzzDecodeMessage:
// valid messages from both codecs and crafted pointer graphs.
func TestC12GenCorpus(t *testing.T) {
	if os.Getenv("VERIF_GEN_CORPUS") == "" {
		t.Skip("set VERIF_GEN_CORPUS=1 to regenerate the seed corpus")
	}
	dir := "testdata/fuzz/FuzzDecodeMessage"
	os.MkdirAll(dir, 0o755)
	n := 0
	write := func(b []byte) {
		n++
		os.WriteFile(fmt.Sprintf("%s/seed-%03d", dir, n), []byte(fmt.Sprintf("go test fuzz v1\n[]byte(%q)\n", b)), 0o644)
	}
	own := rapid.Custom(func(rt *rapid.T) []byte { return dnsfx.GenMessage(rt, "m").Bytes() })
	adv := rapid.Custom(func(rt *rapid.T) []byte { b, _ := advMessage(rt); return b })
	foreign := rapid.Custom(func(rt *rapid.T) []byte {
		var pool []string
		var secs [3][]dnsfx.XRecord
		for s := 0; s < 3; s++ {
			for i, k := 0, rapid.IntRange(0, 3).Draw(rt, "n"); i < k; i++ {
				if x, err := dnsfx.GenXRecord(rt, fmt.Sprintf("r%d_%d", s, i), &pool, s == 2 && i == 0); err == nil {
					secs[s] = append(secs[s], x)
				}
			}
		}
		pkt, err := dnsfx.BuildX(dnsmessageHeader(), nil, secs, true)
		if err != nil {
			rt.Skip("refused")
		}
		return pkt
	})
	for i := 0; i < 12; i++ {
		if b := own.Example(i); len(b) < 3000 {
			write(b)
		}
		write(adv.Example(i))
		if b := foreign.Example(i); len(b) < 3000 {
			write(b)
		}
	}
	svc := rapid.Custom(func(rt *rapid.T) []byte { return svcParamMessage(rt) })
	for i := 0; i < 12; i++ {
		write(svc.Example(i))
	}
	t.Logf("wrote %d seeds", n)
}

var (
	c12RawOnce sync.Once
	c12Raw     *dnsfx.RawServer
)

// TestC12Framing: the DoH response's framing is attacker-controlled too. The
// declared Content-Length may exceed what a DNS message can be (or what
// follows); consuming such a response stays bounded and never panics.
func TestC12Framing(t *testing.T) {
	rec := ev.Get("C12")
	rapid.Check(t, func(t *rapid.T) {
		c12RawOnce.Do(func() {
			s, err := dnsfx.NewRawServer()
			if err != nil {
				panic(err)
			}
			c12Raw = s
		})
		c12Mu.Lock()
		defer c12Mu.Unlock()
		var body []byte
		switch rapid.IntRange(0, 2).Draw(t, "body_kind") {
		case 0:
			body = svcParamMessage(t)
		case 1:
			body = dnsfx.GenMessage(t, "m").Bytes()
		default:
			body = hello.GenBytes(t, "junk", rapid.IntRange(0, 600).Draw(t, "junklen"))
		}
		declared := []int64{int64(len(body)), int64(len(body)) + 1, int64(len(body)) - 1, 0, 65535, 65536, 1 << 20, 1<<31 - 1, 1 << 31, 1<<32 + 5, 1 << 36}[uniform(t, "declared", 11)]
		if declared < 0 {
			declared = 0
		}
		framing := []string{"content_length", "content_length", "chunked", "until_close"}[rapid.IntRange(0, 3).Draw(t, "framing")]
		if framing == "content_length" {
			c12Raw.Set(fmt.Sprintf("Content-Length: %d\r\n", declared), body)
		} else {
			// no Content-Length at all: the body's size is only known once it has been read
			if sz := []int{0, 70 << 10, 3 << 20, 6 << 20}[rapid.IntRange(0, 3).Draw(t, "unframed_size")]; sz > len(body) {
				body = append(body, make([]byte, sz-len(body))...)
			}
			declared = int64(len(body))
			if framing == "chunked" {
				var enc []byte
				for p := 0; p < len(body); p += 32 << 10 {
					q := min(len(body), p+32<<10)
					enc = append(enc, fmt.Sprintf("%x\r\n", q-p)...)
					enc = append(enc, body[p:q]...)
					enc = append(enc, "\r\n"...)
				}
				enc = append(enc, "0\r\n\r\n"...)
				c12Raw.Set("Transfer-Encoding: chunked\r\n", enc)
			} else {
				c12Raw.Set("", body)
			}
		}
		r, err := ech.NewResolver(c12Raw.URL)
		if err != nil {
			t.Fatalf("harness: %v", err)
		}
		r.SetCacheSize(0)
		rp := map[string]any{"framing": framing, "declared_content_length": declared, "body_len": len(body), "body_head": hx(body[:min(len(body), 600)])}
		var ms0, ms1 runtime.MemStats
		var rerr error
		watch("C12", rp, func() {
			runtime.ReadMemStats(&ms0)
			ctx, cancel := context.WithTimeout(context.Background(), 20*time.Second)
			defer cancel()
			rerr = guard(func() error {
				res, e := r.Resolve(ctx, "example.com")
				if e == nil {
					for range res.Targets("tcp") {
					}
				}
				return e
			})
			runtime.ReadMemStats(&ms1)
		})
		if isPanic(rerr) {
			ev.Violation(t, "C12", rp, "Resolve panicked on a DoH response declaring Content-Length %d with a %d-byte body: %v", declared, len(body), rerr)
		}
		// one Resolve = a handful of DoH exchanges; a DNS message is at most 65535 bytes
		if alloc := ms1.TotalAlloc - ms0.TotalAlloc; alloc > 3*16<<20 {
			ev.Violation(t, "C12", rp, "Resolve allocated %d bytes while consuming a DoH response (framing %s, declared/actual length %d, %d body bytes sent)", alloc, framing, declared, len(body))
		}
		if declared > 65535 && rerr == nil {
			ev.Violation(t, "C12", rp, "Resolve accepted a DoH response of %d bytes (framing %s; a DNS message is at most 65535)", declared, framing)
		}
		rec.Case(fmt.Sprintf("framing|%s|%d|%d", framing, declared, len(body)), declared != int64(len(body)) || framing != "content_length", []string{"doh_framing", "framing:" + framing, fmt.Sprintf("declared_gt_64k:%v", declared > 65535)}, func() any {
			return map[string]any{"kind": "doh_framing", "declared": declared, "body_len": len(body), "err": fmt.Sprint(rerr)}
		})
	})
}

// TestC12CnameGraph: well-formed answers whose CNAME records form chains, forks,
// self loops and cycles through the queried name, in any order, with address and
// HTTPS records hanging off any of the names. The resolver consumes every such
// body in bounded time and memory.
func TestC12CnameGraph(t *testing.T) {
	rec := ev.Get("C12")
	rapid.Check(t, func(t *rapid.T) {
		c12SrvOnce.Do(func() {
			s, err := dnsfx.NewServer(func(dnsfx.Query) (int, []byte) { return 200, nil })
			if err != nil {
				panic(err)
			}
			c12Srv = s
		})
		c12Mu.Lock()
		defer c12Mu.Unlock()
		pool := []string{"$Q", "a.example", "b.example", "c.example"}
		type grec struct {
			owner, target string
			typ           uint16
		}
		var recs []grec
		cyc := false
		next := map[string]string{}
		for i, n := 0, rapid.IntRange(1, 9).Draw(t, "nrec"); i < n; i++ {
			g := grec{owner: pool[rapid.IntRange(0, 3).Draw(t, "owner")], typ: []uint16{5, 5, 5, 1, 28, 65, 64}[rapid.IntRange(0, 6).Draw(t, "type")]}
			if g.typ == 5 {
				g.target = pool[rapid.IntRange(0, 3).Draw(t, "target")]
				if _, dup := next[g.owner]; !dup {
					next[g.owner] = g.target
				}
			}
			recs = append(recs, g)
		}
		for cur, seen := "$Q", map[string]bool{}; ; {
			if seen[cur] {
				cyc = true
				break
			}
			seen[cur] = true
			nx, ok := next[cur]
			if !ok {
				break
			}
			cur = nx
		}
		swapQType := rapid.IntRange(0, 3).Draw(t, "echoed_question_of_other_type") == 0
		addMask := 0
		if rapid.IntRange(0, 2).Draw(t, "records_in_additional_section") == 0 {
			addMask = 1 + uniform(t, "additional_mask", 1<<16-1)
		}
		c12Srv.SetRespond(func(q dnsfx.Query) (int, []byte) {
			sub := func(s string) string {
				if s == "$Q" {
					return q.Name
				}
				return s
			}
			var ans []dnsfx.AnsRec
			for i, g := range recs {
				a := dnsfx.AnsRec{Owner: sub(g.owner), Type: g.typ, Rec: dnsfx.ZRec{TTL: 60}}
				switch g.typ {
				case 5:
					a.Rec.CNAME = sub(g.target)
				case 1:
					a.Rec.IP = net.IP{192, 0, 2, byte(i)}
				case 28:
					a.Rec.IP = net.ParseIP(fmt.Sprintf("2001:db8::%d", i+1))
				default:
					a.Rec.HTTPS = dns.HTTPS{Priority: uint16(i % 3), Target: []string{"", "a.example", "b.example"}[i%3], ALPN: []string{"h2"}}
				}
				ans = append(ans, a)
			}
			eq := q
			if swapQType {
				// the echoed question (and a record to go with it) is of another type than the
				// one asked: an answer for a question nobody put
				eq.Type = map[uint16]uint16{65: 1, 1: 65, 28: 65}[q.Type]
				extra := dnsfx.AnsRec{Owner: q.Name, Type: eq.Type, Rec: dnsfx.ZRec{TTL: 60, IP: net.IP{192, 0, 2, 99}, HTTPS: dns.HTTPS{Priority: 1, ALPN: []string{"h2"}}}}
				ans = append([]dnsfx.AnsRec{extra}, ans...)
			}
			// some of the records travel in the additional section (a server may volunteer the
			// addresses and HTTPS records it expects to be asked for next, RFC 9460 section 4.2)
			var add []dnsfx.AnsRec
			if addMask != 0 {
				var keep []dnsfx.AnsRec
				for i, a := range ans {
					if addMask>>(i%16)&1 == 1 {
						add = append(add, a)
					} else {
						keep = append(keep, a)
					}
				}
				ans = keep
			}
			pkt, err := dnsfx.PacketAdd(eq, 0, ans, add)
			if err != nil {
				pkt, _ = dnsfx.Packet(q, 2, nil)
			}
			return 200, pkt
		})
		c12Srv.TakeLog()
		r, err := ech.NewResolver(c12Srv.URL)
		if err != nil {
			t.Fatalf("harness: %v", err)
		}
		if rapid.Bool().Draw(t, "no_cache") {
			r.SetCacheSize(0)
		}
		name := rapid.SampledFrom([]string{"example.com", "example.com:8443", "foo://example.com", "a.example"}).Draw(t, "name")
		rp := map[string]any{"records": fmt.Sprintf("%+v", recs), "resolve": name}
		var ms0, ms1 runtime.MemStats
		var rerr error
		watch("C12", rp, func() {
			runtime.ReadMemStats(&ms0)
			ctx, cancel := context.WithTimeout(context.Background(), 20*time.Second)
			defer cancel()
			rerr = guard(func() error {
				res, e := r.Resolve(ctx, name)
				if e == nil {
					for range res.Targets("tcp") {
					}
				}
				// the application asks again (now possibly answered from the cache)
				for k := 0; k < 2; k++ {
					if res2, e2 := r.Resolve(ctx, name); e2 == nil {
						for range res2.Targets("tcp") {
						}
					}
				}
				return e
			})
			runtime.ReadMemStats(&ms1)
		})
		if isPanic(rerr) {
			ev.Violation(t, "C12", rp, "Resolve panicked on an answer with this CNAME graph: %v", rerr)
		}
		if alloc := ms1.TotalAlloc - ms0.TotalAlloc; alloc > 16<<20 {
			ev.Violation(t, "C12", rp, "Resolve allocated %d bytes on an answer with this CNAME graph", alloc)
		}
		if n := len(c12Srv.TakeLog()); n > 3*64 {
			ev.Violation(t, "C12", rp, "Resolve sent %d queries for one name", n)
		}
		cl := []string{"cname_graph"}
		if swapQType {
			cl = append(cl, "echoed_question_of_other_type")
		}
		if cyc {
			cl = append(cl, "cname_cycle_from_qname")
		}
		rec.Case(fmt.Sprintf("cnames|%+v|%s", recs, name), cyc, cl, func() any {
			return map[string]any{"kind": "cname_graph", "records": fmt.Sprintf("%+v", recs), "resolve": name, "err": fmt.Sprint(rerr)}
		})
	})
}
