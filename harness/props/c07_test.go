package props

import (
	"bytes"
	"context"
	"errors"
	"fmt"
	"io"
	"net"
	"slices"
	"testing"
	"time"

	"github.com/c2FmZQ/ech"
	"pgregory.net/rapid"

	"verif/harness/ev"
	"verif/harness/hello"
	"verif/harness/wire"
)

// genRecordLen draws a record payload length with weight on the boundaries.
func genRecordLen(t *rapid.T, label string, ct byte) int {
	switch rapid.IntRange(0, 9).Draw(t, label+"_lc") {
	case 0:
		if ct == 23 {
			return 0
		}
		return 1
	case 1:
		return 1
	case 2:
		return 16383
	case 3:
		return 16384
	case 4:
		if ct == 23 {
			return 16385 + uniform(t, label+"_over", 256)
		}
		return 16384
	case 5:
		if ct == 23 {
			return 16384 + 256
		}
		return 5
	default:
		return rapid.IntRange(1, 300).Draw(t, label+"_l")
	}
}

// ccsLen returns the size of a leading change_cipher_spec record of b (0 if none).
func ccsLen(b []byte) int {
	if len(b) >= 6 && b[0] == 20 {
		return 6
	}
	return 0
}

// genStream draws records of types 20..23. noHello: handshake records never
// start with msg type 1 (ClientHello) or 2 (ServerHello).
func genStream(t *rapid.T, label string, max int) [][]byte {
	n := rapid.IntRange(0, max).Draw(t, label+"_n")
	var out [][]byte
	for i := 0; i < n; i++ {
		ct := byte(20 + rapid.IntRange(0, 3).Draw(t, label+"_ct"))
		l := genRecordLen(t, label, ct)
		b := hello.GenBytes(t, label+"_b", l)
		if ct == 22 && l > 0 && (b[0] == 1 || b[0] == 2) {
			b[0] = 11
		}
		out = append(out, hello.Record(ct, 0x0303, b))
	}
	return out
}

func TestC07(t *testing.T) {
	rec := ev.Get("C07")
	rec.Rule("first hello accepted (sealed, C03 generator) or passed through, then a client record stream (types 20-23; lengths weighted on 0 (application data), 1, 16383, 16384 and 16385..16640 for type 23), a backend stream (optional ServerHello, then records) split at drawn points over Write calls, a chunk schedule for transport reads (1 byte .. whole flight), caller buffer sizes 1..70000, and optionally a transport cut (EOF or error, reported on its own or together with the last bytes) at a drawn offset after the first record; in an eighth of the cases the backend's first record is a HelloRetryRequest and the client stream continues with (change_cipher_spec and) a well-formed retried hello, expected as its reconstructed inner hello followed by exactly the rest; in a sixth of the cases the transport's write side fails at a drawn offset (the error must surface, with only a prefix of the backend's bytes delivered); in a third of the cases the reads of a second, unrelated accepted connection are interleaved (connections share nothing). Oracle: concat(Read) == rewritten hello || rest up to the cut, error only after all bytes; transport writes are a prefix of backend writes with less than one complete record withheld; Write returns (len,nil). distinct = (schedule hash, cut, record lengths); non-trivial = a record straddles two chunks or two writes")
	rec.Mandatory("chunks_1byte", "cut_in_header", "cut_in_body", "record_len0", "record_gt16384", "accepted", "passthrough", "backend_split", "nontrivial", "neighbour_conn", "hrr_then_retried_hello", "transport_write_fails", "end_error_with_last_bytes", "cut_by_timeout")
	rapid.Check(t, func(t *rapid.T) {
		accepted := rapid.Bool().Draw(t, "accepted")
		var first, wantFirst []byte
		var keys []*hello.Key
		// HelloRetryRequest mode: the backend's first record is an HRR, the client's next
		// records are an optional change_cipher_spec and a well-formed retried hello, which
		// the backend must receive as its reconstructed inner hello - and then the rest
		hrrMode := false
		var retryIn, retryWant []byte // client bytes of the retry flight / what the backend receives for them
		var hrrBytes []byte
		if accepted {
			sc := drawSealed(t, false)
			first = sc.Record
			wantFirst = hello.Record(22, 0x0303, sc.WantInner)
			keys = []*hello.Key{sc.Key}
			if rapid.IntRange(0, 3).Draw(t, "hrr_mode") == 0 {
				hrrMode = true
				in2 := sc.Tuple.Inner.Clone()
				in2.Random = hello.GenBytes(t, "random2", 32)
				out2 := sc.Tuple.Outer.Clone()
				out2.Random = hello.GenBytes(t, "orandom2", 32)
				msg2, err := sc.Sealer.SealOuter(out2, hello.Encode(hello.Compress(in2, sc.Tuple.RunStart, sc.Tuple.RunLen), make([]byte, sc.Tuple.Pad)), false)
				if err != nil {
					t.Fatalf("harness: %v", err)
				}
				if rapid.Bool().Draw(t, "ccs_before_hello2") {
					retryIn = append(retryIn, hello.Record(20, 0x0303, []byte{1})...)
				}
				retryWant = append(append([]byte{}, retryIn...), hello.Record(22, 0x0303, hello.ExpectedInner(in2, out2).Message())...)
				retryIn = append(retryIn, hello.Record(22, 0x0303, msg2)...)
				hrrBytes = hrrRecord(sc.Tuple.Outer.SessionID)
			}
		} else {
			h := hello.GenPlain(t, "plain", hello.PlainOpts{})
			first = hello.Record(22, 0x0303, h.Message())
			wantFirst = first
			if rapid.Bool().Draw(t, "with_keys") {
				keys = []*hello.Key{drawKey(t, "k", -1, "public.example")}
			}
		}
		crecs := genStream(t, "client", 6)
		var rest []byte
		cl := []string{}
		for _, r := range crecs {
			rest = append(rest, r...)
			if len(r) == 5 {
				cl = append(cl, "record_len0")
			}
			if len(r) > 5+16384 {
				cl = append(cl, "record_gt16384")
			}
		}
		rest = append(append([]byte{}, retryIn...), rest...)
		stream := append(append([]byte{}, first...), rest...)
		// cut
		cut := -1
		cutInRetry := false
		var endErr error = io.EOF
		if rapid.IntRange(0, 2).Draw(t, "cut?") == 0 && len(rest) > 0 {
			cut = len(first) + len(retryIn) + uniform(t, "cut", len(rest)-len(retryIn)+1)
			if cut >= len(stream) {
				cut = len(stream) - 1
			}
			if cut < len(first)+len(retryIn) {
				cut = len(first) + len(retryIn) // hrr mode: never inside the retry flight (it is replaced, not relayed)
			}
			if hrrMode && rapid.IntRange(0, 2).Draw(t, "cut_in_retry_flight") == 0 {
				cut = len(first) + uniform(t, "cut_retry", len(retryIn))
				cutInRetry = true
				cl = append(cl, "cut_inside_retry_flight")
			}
			switch rapid.IntRange(0, 2).Draw(t, "cut_err") {
			case 1:
				endErr = wire.ErrInjected
			case 2:
				// a read deadline that expires mid-stream: an error like any other for this purpose
				endErr = wire.ErrTimeout
				cl = append(cl, "cut_by_timeout")
			}
			// classify
			off := len(first) + len(retryIn)
			for _, r := range crecs {
				if cut >= off && cut < off+len(r) {
					if cut-off < 5 && cut != off {
						cl = append(cl, "cut_in_header")
					} else if cut != off {
						cl = append(cl, "cut_in_body")
					} else {
						cl = append(cl, "cut_at_boundary")
					}
				}
				off += len(r)
			}
			stream = stream[:cut]
		}
		want := append(append([]byte{}, wantFirst...), retryWant...)
		if !cutInRetry {
			want = append(want, stream[len(first)+len(retryIn):]...)
		} else {
			// the transport ends inside the retry flight: what had arrived (a whole
			// change_cipher_spec, the incomplete retried hello as received) is delivered
			want = append(append([]byte{}, wantFirst...), stream[len(first):]...)
		}
		// record-header version bytes of the two rewritten hellos may be normalised
		vmask := []int{1, 2}
		if hrrMode && !cutInRetry {
			h2 := len(wantFirst) + ccsLen(retryWant) // offset of the rewritten second hello
			vmask = append(vmask, h2+1, h2+2)
			cl = append(cl, "hrr_then_retried_hello")
		}
		masked := func(b []byte) []byte {
			c := append([]byte{}, b...)
			for _, i := range vmask {
				if i < len(c) {
					c[i] = 0
				}
			}
			return c
		}
		wantM := masked(want)
		// backend stream
		var bstream []byte
		if hrrMode {
			bstream = append(bstream, hrrBytes...)
		} else if rapid.Bool().Draw(t, "server_hello") {
			rnd := hello.GenBytes(t, "sh_random", 32)
			if bytes.Equal(rnd, hrrRandom) {
				rnd[0] ^= 1
			}
			bstream = append(bstream, hello.Record(22, 0x0303, serverHelloMsg(rnd, hello.GenBytes(t, "sh_sid", 32), []hello.Ext{{Type: 43, Data: []byte{3, 4}}}))...)
		}
		brecs := genStream(t, "backend", 6)
		for _, r := range brecs {
			bstream = append(bstream, r...)
			if len(r) == 5 {
				cl = append(cl, "record_len0")
			}
			if len(r) > 5+16384 {
				cl = append(cl, "record_gt16384")
			}
		}
		// schedules
		tr := wire.New(stream, endErr)
		// optionally the transport's write side fails at a drawn offset of the backend stream
		wfail := -1
		if len(bstream) > 0 && !hrrMode && rapid.IntRange(0, 5).Draw(t, "write_fails") == 0 {
			wfail = uniform(t, "write_fail_at", len(bstream))
			tr.WriteFailAt = wfail
			cl = append(cl, "transport_write_fails")
		}
		wfailed := false
		if rapid.Bool().Draw(t, "err_with_data") {
			// the transport reports its end together with the last bytes (n > 0 and err != nil)
			tr.ErrWithData = true
			cl = append(cl, "end_error_with_last_bytes")
		}
		chunkMode := rapid.IntRange(0, 3).Draw(t, "chunk_mode")
		switch chunkMode {
		case 0:
			tr.SetChunks(nil, 1)
			cl = append(cl, "chunks_1byte")
		case 1:
			tr.SetChunks(nil, rapid.IntRange(2, 97).Draw(t, "chunk_fixed"))
		case 2:
			n := rapid.IntRange(1, 40).Draw(t, "nchunks")
			ch := make([]int, n)
			for i := range ch {
				ch[i] = 1 + uniform(t, "chunk", 20000)
			}
			tr.SetChunks(ch, 0)
		}
		rp := map[string]any{"keys": keysReplay(keys), "client_stream": hx(stream), "backend_stream": hx(bstream), "cut": cut, "cut_error": endErr.Error(), "chunk_mode": chunkMode, "expect": "pipe"}
		c, err := newConn(context.Background(), tr, echKeys(keys...))
		if err != nil {
			ev.Violation(t, "C07", rp, "NewConn failed: %v", err)
		}
		if c.ECHAccepted() != accepted {
			ev.Violation(t, "C07", rp, "ECHAccepted=%v want %v", c.ECHAccepted(), accepted)
		}
		cl = append(cl, map[bool]string{true: "accepted", false: "passthrough"}[accepted])
		// a neighbour: a second, unrelated accepted connection in the same process whose
		// reads are interleaved with this one's. Connections share nothing.
		var nb *ech.Conn
		var nbWant, nbGot []byte
		nbOps := 0
		if rapid.IntRange(0, 2).Draw(t, "neighbour") == 0 {
			nsc := drawSealed(t, false)
			nstream := append([]byte{}, nsc.Record...)
			nbWant = hello.Record(22, 0x0303, nsc.WantInner)
			for i, n := 0, rapid.IntRange(1, 12).Draw(t, "nb_records"); i < n; i++ {
				body := bytes.Repeat([]byte{byte(0x80 + i)}, rapid.IntRange(1, 400).Draw(t, "nb_len"))
				body[0] = 11 // never a ClientHello
				r := hello.Record(22, 0x0303, body)
				nstream = append(nstream, r...)
				nbWant = append(nbWant, r...)
			}
			var e error
			nb, e = newConn(context.Background(), wire.New(nstream, io.EOF), echKeys(nsc.Key))
			if e != nil || !nb.ECHAccepted() {
				t.Fatalf("harness: neighbour connection not accepted: %v", e)
			}
			cl = append(cl, "neighbour_conn")
		}
		var got, wrote []byte
		var ops []string
		bpos := 0
		readDone := false
		split := false
		for !readDone || bpos < len(bstream) {
			if nb != nil && nbOps < 80 && len(nbGot) < len(nbWant) && rapid.IntRange(0, 2).Draw(t, "op_neighbour") == 0 {
				nbOps++
				nbuf := make([]byte, 1+uniform(t, "nb_bufsize", 600))
				var n int
				e := guard(func() error { var e error; n, e = nb.Read(nbuf); return e })
				ops = append(ops, fmt.Sprintf("n%d=%d", len(nbuf), n))
				nbGot = append(nbGot, nbuf[:n]...)
				if isPanic(e) || (e != nil && e != io.EOF) || !bytes.Equal(nbGot[min(3, len(nbGot)):], nbWant[min(3, len(nbGot)):len(nbGot)]) {
					rp["ops"] = ops
					ev.Violation(t, "C07", rp, "the neighbour connection's stream is disturbed (read %d bytes, err=%v)", len(nbGot), e)
				}
				continue
			}
			doWrite := bpos < len(bstream) && (readDone || rapid.Bool().Draw(t, "op_write"))
			if hrrMode && len(got) < len(wantFirst) {
				doWrite = false // the backend reads the first hello before it answers
			} else if hrrMode && bpos < len(hrrBytes) {
				doWrite = true // and writes the whole HelloRetryRequest before it reads on
			}
			if doWrite {
				n := len(bstream) - bpos
				switch rapid.IntRange(0, 3).Draw(t, "wsize") {
				case 0:
					n = 1
				case 1:
					n = 1 + uniform(t, "wn", n)
				case 2:
					n = min(n, 1+uniform(t, "wn_small", 7))
				}
				// hand Write a scratch buffer with sentinel-filled spare capacity and scribble
				// over it afterwards, as a relay that reuses its buffer (io.CopyBuffer) does:
				// io.Writer implementations must not retain or modify the slice
				scratch := make([]byte, n, n+8)
				copy(scratch, bstream[bpos:bpos+n])
				copy(scratch[n:cap(scratch)], "\xa5\xa5\xa5\xa5\xa5\xa5\xa5\xa5")
				b := scratch
				var k int
				// a relay written as io.Copy(conn, backend) reaches the Conn through io.Copy's
				// fast paths when it has any (io.ReaderFrom), otherwise through Write
				viaCopy := rapid.IntRange(0, 2).Draw(t, "write_via_io_copy") == 0
				e := guard(func() error {
					if viaCopy {
						k64, e := io.Copy(c, struct{ io.Reader }{bytes.NewReader(b)})
						k = int(k64)
						return e
					}
					var e error
					k, e = c.Write(b)
					return e
				})
				if string(scratch[n:cap(scratch)]) != "\xa5\xa5\xa5\xa5\xa5\xa5\xa5\xa5" || !bytes.Equal(scratch, bstream[bpos:bpos+n]) {
					rp["ops"] = ops
					ev.Violation(t, "C07", rp, "Write modified the caller's buffer (or its spare capacity)")
				}
				for i := range scratch[:cap(scratch)] {
					scratch[:cap(scratch)][i] = 0xee
				}
				if viaCopy {
					ops = append(ops, fmt.Sprintf("wcopy%d", n))
				} else {
					ops = append(ops, fmt.Sprintf("w%d", n))
				}
				if wfail >= 0 && e != nil && !isPanic(e) {
					// the transport failed: the error surfaces, nothing beyond the failure offset
					// (and nothing but the backend's own bytes) reached the client; the stream ends here
					w, _ := tr.Snapshot()
					if !errors.Is(e, wire.ErrInjected) || len(w) > wfail || !bytes.HasPrefix(bstream, w) || bpos+n <= wfail {
						rp["ops"] = ops
						ev.Violation(t, "C07", rp, "transport write fails at offset %d: Write(%d bytes at backend offset %d) returned (%d, %v) with %d bytes delivered", wfail, n, bpos, k, e, len(w))
					}
					wfailed = true
					bstream = bstream[:bpos]
					continue
				}
				if e != nil || k != n {
					rp["ops"] = ops
					ev.Violation(t, "C07", rp, "Write(%d bytes at backend offset %d) returned (%d, %v)", n, bpos, k, e)
				}
				bpos += n
				wrote = bstream[:bpos]
				w, _ := tr.Snapshot()
				if !bytes.HasPrefix(wrote, w) {
					rp["ops"] = ops
					ev.Violation(t, "C07", rp, "bytes delivered to the client are not a prefix of the backend's bytes (delivered %d, written %d)", len(w), len(wrote))
				}
				held := wrote[len(w):]
				if len(held) >= 5 {
					rl := int(held[3])<<8 | int(held[4])
					if len(held) >= 5+rl {
						rp["ops"] = ops
						ev.Violation(t, "C07", rp, "a complete record (%d bytes) is withheld from the client after Write (held %d bytes)", 5+rl, len(held))
					}
					split = true
				} else if len(held) > 0 {
					split = true
				}
				continue
			}
			if !hrrMode && !readDone && rapid.IntRange(0, 15).Draw(t, "rest_with_io_copy") == 0 {
				// from here on the relay is io.Copy(backend, conn) (a Conn's io.WriterTo, if it has
				// one): the backend gets the rest of the stream, then the transport's error
				var sink bytes.Buffer
				e := guard(func() error { _, e := io.Copy(&sink, c); return e })
				ops = append(ops, fmt.Sprintf("iocopy=%d", sink.Len()))
				got = append(got, sink.Bytes()...)
				for d := len(got) - sink.Len(); d < len(got); d++ {
					if d >= len(want) || (got[d] != want[d] && !slices.Contains(vmask, d)) {
						rp["ops"] = ops
						ev.Violation(t, "C07", rp, "io.Copy from the Conn: bytes diverge from the expected stream at offset %d (%d delivered)", d, len(got))
					}
				}
				if isPanic(e) || len(got) != len(want) || (endErr == io.EOF) != (e == nil) || (e != nil && !errors.Is(e, endErr)) {
					rp["ops"] = ops
					ev.Violation(t, "C07", rp, "io.Copy from the Conn delivered %d of %d bytes and returned %v, the transport ended with %v", len(got), len(want), e, endErr)
				}
				readDone = true
				continue
			}
			bs := 1 + uniform(t, "bufsize", 70000)
			if rapid.IntRange(0, 3).Draw(t, "smallbuf") == 0 {
				bs = 1 + uniform(t, "bufsmall", 9)
			}
			buf := make([]byte, bs)
			var slab []byte
			if rapid.IntRange(0, 7).Draw(t, "read_into_window_of_a_slab") == 0 {
				// the relay's buffer is a window of a larger slab (a ring buffer, a slot of an arena):
				// cap(b) is far more than len(b), and what lies beyond len(b) is the caller's,
				// in use for something else - io.Reader lets Read touch b[:len(b)] only
				slab = bytes.Repeat([]byte{0x5a}, bs+17000)
				buf = slab[:bs]
			}
			var n int
			e := guard(func() error { var e error; n, e = c.Read(buf); return e })
			if slab != nil {
				for i := bs; i < len(slab); i++ {
					if slab[i] != 0x5a {
						rp["ops"] = ops
						ev.Violation(t, "C07", rp, "Read(b) with len(b)=%d, cap(b)=%d wrote into the caller's memory %d bytes past the end of b", bs, cap(buf), i-bs)
					}
					slab[i] = 0xc3 // and the caller goes on using its memory
				}
				ops = append(ops, "slab")
			}
			ops = append(ops, fmt.Sprintf("r%d=%d", bs, n))
			got = append(got, buf[:n]...)
			for d := len(got) - n; d < len(got); d++ {
				if d >= len(want) || (got[d] != want[d] && !slices.Contains(vmask, d)) {
					rp["ops"] = ops
					ev.Violation(t, "C07", rp, "bytes read from the Conn diverge from the expected stream at offset %d (read %d so far)", d, len(got))
				}
			}
			if e != nil {
				if isPanic(e) {
					rp["ops"] = ops
					ev.Violation(t, "C07", rp, "panic in Read: %v", e)
				}
				if len(got) != len(want) {
					rp["ops"] = ops
					ev.Violation(t, "C07", rp, "Read reported %v after %d of %d bytes", e, len(got), len(want))
				}
				if !(errors.Is(e, endErr) || (endErr == io.EOF && e == io.EOF)) {
					rp["ops"] = ops
					ev.Violation(t, "C07", rp, "Read reported %v, transport ended with %v", e, endErr)
				}
				readDone = true
			} else if n == 0 && len(ops) > 200000 {
				ev.Violation(t, "C07", rp, "Read makes no progress")
			}
		}
		w, _ := tr.Snapshot()
		if !wfailed && !bytes.Equal(w, bstream) {
			rp["ops"] = ops
			ev.Violation(t, "C07", rp, "after the backend stream ended the client has %d of %d bytes", len(w), len(bstream))
		}
		if len(got) != len(want) || !bytes.Equal(masked(got), wantM) {
			rp["ops"] = ops
			ev.Violation(t, "C07", rp, "backend received %d bytes, expected %d", len(got), len(want))
		}
		if split {
			cl = append(cl, "backend_split")
		}
		nontrivial := split || chunkMode != 3
		rec.Case(fmt.Sprintf("%v|%d|%d|%v", accepted, chunkMode, cut, ops), nontrivial, cl, func() any {
			return map[string]any{"accepted": accepted, "client_records": len(crecs), "backend_bytes": len(bstream), "cut": cut, "chunk_mode": chunkMode, "ops": ops[:min(len(ops), 12)]}
		})
	})
}

// TestC07CutSweep enumerates EVERY transport cut offset (EOF and error) of a
// generated client flight: everything before the cut is delivered, then the error.
func TestC07CutSweep(t *testing.T) {
	rec := ev.Get("C07")
	rapid.Check(t, func(t *rapid.T) {
		accepted := rapid.Bool().Draw(t, "accepted")
		var first, wantFirst []byte
		var keys []*hello.Key
		if accepted {
			sc := drawSealed(t, false)
			if len(sc.Record) > 900 {
				t.Skip("long hello: keep the sweep small")
			}
			first, wantFirst, keys = sc.Record, hello.Record(22, 0x0303, sc.WantInner), []*hello.Key{sc.Key}
		} else {
			h := hello.GenPlain(t, "plain", hello.PlainOpts{})
			first = hello.Record(22, 0x0303, h.Message())
			if len(first) > 900 {
				t.Skip("long hello")
			}
			wantFirst = first
		}
		var rest []byte
		for i, n := 0, rapid.IntRange(1, 4).Draw(t, "nrec"); i < n; i++ {
			ct := byte(20 + rapid.IntRange(0, 3).Draw(t, "ct"))
			l := rapid.IntRange(1, 40).Draw(t, "l")
			if ct == 23 && rapid.IntRange(0, 3).Draw(t, "zero") == 0 {
				l = 0
			}
			b := hello.GenBytes(t, "b", l)
			if ct == 22 && l > 0 && (b[0] == 1 || b[0] == 2) {
				b[0] = 11
			}
			rest = append(rest, hello.Record(ct, 0x0303, b)...)
		}
		chunk := []int{0, 1, 3}[rapid.IntRange(0, 2).Draw(t, "chunk")]
		bufsize := []int{1, 5, 64, 4096}[rapid.IntRange(0, 3).Draw(t, "bufsize")]
		errWithData := rapid.Bool().Draw(t, "err_with_data")
		for cut := len(first); cut <= len(first)+len(rest); cut++ {
			for _, endErr := range []error{io.EOF, wire.ErrInjected} {
				stream := append(append([]byte{}, first...), rest[:cut-len(first)]...)
				want := append(append([]byte{}, wantFirst...), rest[:cut-len(first)]...)
				tr := wire.New(stream, endErr)
				tr.ErrWithData = errWithData
				if chunk > 0 {
					tr.SetChunks(nil, chunk)
				}
				rp := map[string]any{"keys": keysReplay(keys), "client_stream": hx(stream), "cut": cut, "cut_error": endErr.Error(), "chunk": chunk, "bufsize": bufsize}
				c, err := newConn(context.Background(), tr, echKeys(keys...))
				if err != nil {
					ev.Violation(t, "C07", rp, "NewConn failed: %v", err)
				}
				var got []byte
				buf := make([]byte, bufsize)
				for i := 0; ; i++ {
					var n int
					e := guard(func() error { var e error; n, e = c.Read(buf); return e })
					got = append(got, buf[:n]...)
					if e != nil {
						if isPanic(e) {
							ev.Violation(t, "C07", rp, "panic: %v", e)
						}
						if !errors.Is(e, endErr) {
							ev.Violation(t, "C07", rp, "cut at %d: Read reported %v, transport ended with %v", cut, e, endErr)
						}
						break
					}
					if i > 4*len(stream)+16 {
						ev.Violation(t, "C07", rp, "cut at %d: Read never reports the end of the stream", cut)
					}
				}
				if len(got) != len(want) || !bytes.Equal(got[3:], want[3:]) {
					ev.Violation(t, "C07", rp, "cut at offset %d (%v): backend received %d bytes before the error, %d were received from the client", cut, endErr, len(got), len(want))
				}
				rec.Class("cut_sweep_offset")
			}
		}
		rec.Class("cut_sweep_flight")
	})
}

// TestC07Idle: the client falls silent at an arbitrary offset after its hello - inside a
// record or between two - while the relay polls the Conn with short read deadlines (an
// idle timer). The relay then extends the deadline and the client resumes. Whatever the
// Conn does with a timeout that hit it in the middle of a record, the backend never
// receives anything but a prefix of the (rewritten) client stream: either the stream goes
// on where it was, or the Conn stays failed and delivers nothing more.
func TestC07Idle(t *testing.T) {
	rec := ev.Get("C07")
	rapid.Check(t, func(t *rapid.T) {
		sc := drawSealed(t, false)
		var rest []byte
		for i, n := 0, rapid.IntRange(1, 5).Draw(t, "nrecords"); i < n; i++ {
			ct := byte(rapid.SampledFrom([]int{20, 22, 22, 21, 23}).Draw(t, "ct"))
			b := hello.GenBytes(t, "body", rapid.IntRange(1, 400).Draw(t, "len"))
			if ct == 22 && b[0] == 1 {
				b[0] = 11 // not a ClientHello
			}
			if ct == 20 {
				b = []byte{1}
			}
			rest = append(rest, hello.Record(ct, 0x0303, b)...)
		}
		stream := append(append([]byte{}, sc.Record...), rest...)
		want := append(hello.Record(22, 0x0303, sc.WantInner), rest...)
		k := len(sc.Record) + uniform(t, "silent_at", len(rest))
		tr := wire.New(stream[:k], nil)
		c, err := newConn(context.Background(), tr, echKeys(sc.Key))
		if err != nil || !c.ECHAccepted() {
			t.Fatalf("harness: hello not accepted: %v", err)
		}
		rp := map[string]any{"keys": keysReplay([]*hello.Key{sc.Key}), "client_stream": hx(stream), "silent_at": k}
		var got []byte
		isPrefix := func() bool {
			if len(got) > len(want) {
				return false
			}
			for i := range got {
				if got[i] != want[i] && i != 1 && i != 2 {
					return false
				}
			}
			return true
		}
		buf := make([]byte, 1+uniform(t, "bufsize", 3000))
		timedOut := false
		for i := 0; i < 10000 && !timedOut; i++ {
			tr.SetReadDeadline(time.Now().Add(2 * time.Millisecond))
			var n int
			e := guard(func() error { var e error; n, e = c.Read(buf); return e })
			got = append(got, buf[:n]...)
			if !isPrefix() {
				ev.Violation(t, "C07", rp, "backend received bytes that are not a prefix of the client's stream (%d bytes, before the client fell silent)", len(got))
			}
			if e != nil {
				var ne net.Error
				if isPanic(e) || !errors.As(e, &ne) || !ne.Timeout() {
					ev.Violation(t, "C07", rp, "Read with a silent client and a read deadline returned %v, want the transport's timeout", e)
				}
				timedOut = true
			}
		}
		before := len(got)
		tr.SetReadDeadline(time.Time{})
		tr.Feed(stream[k:])
		tr.Finish(io.EOF)
		for i := 0; i < 10000; i++ {
			var n int
			e := guard(func() error { var e error; n, e = c.Read(buf); return e })
			got = append(got, buf[:n]...)
			if !isPrefix() {
				ev.Violation(t, "C07", rp, "after a read timeout at stream offset %d (the client then resumed) the backend received bytes that are not the client's stream: %d bytes delivered, first %d before the timeout", k, len(got), before)
			}
			if e != nil {
				if isPanic(e) {
					ev.Violation(t, "C07", rp, "panic: %v", e)
				}
				break
			}
		}
		if len(got) != len(want) && len(got) != before {
			ev.Violation(t, "C07", rp, "after a read timeout at stream offset %d the Conn delivered %d more bytes and then stopped short of the stream's end (%d of %d)", k, len(got)-before, len(got), len(want))
		}
		cl := []string{"idle_then_resume"}
		if len(got) == len(want) {
			cl = append(cl, "idle_stream_continued")
		} else {
			cl = append(cl, "idle_conn_stays_failed")
		}
		rec.Case(fmt.Sprintf("idle|%d|%d", k-len(sc.Record), len(rest)), true, cl, func() any {
			return map[string]any{"kind": "idle", "silent_at": k, "stream": len(stream), "delivered": len(got)}
		})
	})
}
