package props

import (
	"bytes"
	"context"
	"errors"
	"fmt"
	"io"
	"slices"
	"strings"
	"testing"
	"time"

	"pgregory.net/rapid"

	"verif/harness/ev"
	"verif/harness/hello"
	"verif/harness/wire"
)

// c06 client record kinds
var c06ClientKinds = []string{"ch_good", "ch_good", "ch_good", "ch_no_ech", "ch_other_id", "ch_other_suite", "ch_enc_nonempty", "ch_fresh_ctx", "ch_seq_skip",
	"ch_sni_changed", "ch_alpn_changed", "ch_alpn_reordered", "ch_no_inner_ext", "ch_outer_sni_changed", "ch_outer_no_tls13", "ch_plain", "ccs", "ccs", "hs_other", "appdata", "alert"}
var c06BackendKinds = []string{"hrr", "hrr", "hrr", "sh", "ccs", "appdata", "hs_other"}

var c06RetryClass = map[string]string{
	"ch_no_ech": "missing_extension", "ch_plain": "missing_extension",
	"ch_other_id": "illegal_parameter", "ch_other_suite": "illegal_parameter", "ch_enc_nonempty": "illegal_parameter",
	"ch_fresh_ctx": "decrypt_error", "ch_seq_skip": "decrypt_error",
	"ch_outer_sni_changed": "illegal_parameter",
	"ch_outer_no_tls13":    "illegal_parameter|decrypt_error",
	"ch_sni_changed":       "illegal_parameter", "ch_alpn_changed": "illegal_parameter", "ch_alpn_reordered": "illegal_parameter", "ch_no_inner_ext": "illegal_parameter",
}

type c06ClientRec struct {
	kind      string
	bytes     []byte
	wantInner []byte // reconstructed inner message when processed as a well-formed retry
	seq       int    // sender sequence number used (-1: not sealed with the main sender)
	changed   bool   // an extension referenced through ech_outer_extensions differs from the first flight
}

func TestC06(t *testing.T) {
	rec := ev.Get("C06")
	rec.Rule("state machine over a Conn with an accepted first hello. Operations: client sends (well-formed retried hello sealed at the next sequence number - its extensions, including those referenced through ech_outer_extensions, may differ from the first flight's -, 11 ill-formed variants, plain hello, CCS, other handshake, application data, alert), backend queues (HRR, ServerHello, CCS, application data, other handshake) and flushes its pending bytes in drawn pieces, backend reads one record. Reference machine from the property: a ClientHello consumed while exactly one HRR has been completely written, no retry was processed and no client application data was seen is a retry (expected reconstructed inner, or the class of its defect, alert+close); every other record is forwarded unchanged. distinct = operation-kind sequence; non-trivial = history contains an HRR and a later ClientHello")
	rec.Mandatory("hrr_after_backend_appdata", "double_hrr", "ccs_between_hrr_and_hello", "hello_without_hrr", "hello_after_appdata", "hrr_split_across_writes", "retry_ok", "retry_ok_referenced_ext_changed", "sibling_key_same_id", "other_id_keys_around", "third_hello_forwarded",
		"retry:ch_no_ech", "retry:ch_other_id", "retry:ch_other_suite", "retry:ch_enc_nonempty", "retry:ch_fresh_ctx", "retry:ch_seq_skip", "retry:ch_sni_changed", "retry:ch_alpn_changed", "retry:ch_no_inner_ext", "retry:ch_outer_sni_changed")
	rapid.Check(t, func(t *rapid.T) {
		sc := drawSealed(t, false)
		key := sc.Key
		tp := sc.Tuple
		tr := wire.New(sc.Record, nil)
		// the server may hold other keys under the same one-byte config id (another key pair,
		// another public name), before or after the one in use: the retry belongs to the key
		// that opened the first hello
		serverKeys := []*hello.Key{key}
		var cl []string
		if rapid.IntRange(0, 2).Draw(t, "sibling_keys") == 0 {
			sib := drawKey(t, "sibling", int(key.ID), "sibling."+key.PublicName[:min(len(key.PublicName), 200)])
			sib, _ = hello.NewKey(sib.Priv.Bytes(), key.ID, "sibling."+key.PublicName[:min(len(key.PublicName), 200)], key.Suites)
			if rapid.Bool().Draw(t, "sibling_first") {
				serverKeys = []*hello.Key{sib, key}
			} else {
				serverKeys = []*hello.Key{key, sib}
			}
			cl = append(cl, "sibling_key_same_id")
		}
		if rapid.IntRange(0, 2).Draw(t, "rotated_keys") == 0 {
			// key rotation: newer keys under other config ids sit in front of (and behind) the one
			// this client still uses; the retry belongs to the key that opened the first hello
			for i, n := 0, rapid.IntRange(1, 2).Draw(t, "rotated_n"); i < n; i++ {
				nk := drawKey(t, fmt.Sprintf("rotated%d", i), (int(key.ID)+1+i)%256, key.PublicName)
				if rapid.IntRange(0, 2).Draw(t, "rotated_behind") == 0 {
					serverKeys = append(serverKeys, nk)
				} else {
					serverKeys = append([]*hello.Key{nk}, serverKeys...)
				}
			}
			cl = append(cl, "other_id_keys_around")
		}
		if rapid.IntRange(0, 2).Draw(t, "server_builds_its_options_once") > 0 {
			defer reuseOptions()()
		}
		c, err := newConn(context.Background(), tr, echKeys(serverKeys...))
		if err != nil || !c.ECHAccepted() {
			ev.Violation(t, "C06", sc.replay(), "first hello not accepted: %v", err)
		}
		// the application looks at the names and edits its copy of the ALPN list (sort, filter):
		// the retry rules keep comparing with what the client sent
		if p := c.ALPNProtos(); rapid.Bool().Draw(t, "caller_edits_alpn") {
			for i := range p {
				p[i] = "edited-by-caller"
			}
			_ = c.ServerName()
		}
		// model state
		var pendingClient []c06ClientRec // sent by the client, not yet read by the backend
		pendingClient = append(pendingClient, c06ClientRec{kind: "first", bytes: sc.Record, wantInner: sc.WantInner})
		var backendQueued []byte  // all bytes the backend has produced
		flushed := 0              // bytes handed to Conn.Write
		hrrEnd := -1              // offset in backendQueued where the HRR record ends
		backendBlocksHRR := false // SH / appdata queued: no (interpreted) HRR afterwards
		backendAppData := false   // application data queued before any HRR
		retryDone, clientAppData := false, false
		recipientSeq := 1
		var ops []string
		sawHRR, sawCHAfterHRR, hrrSplit := false, false, false
		ccsSinceHRR := false
		var alertWant []byte

		mkHello := func(kind string) c06ClientRec {
			changedCompressed := false
			in2 := tp.Inner.Clone()
			in2.Random = hello.GenBytes(t, "random2", 32)
			out2 := tp.Outer.Clone()
			out2.Random = hello.GenBytes(t, "orandom2", 32)
			runStart, runLen := tp.RunStart, tp.RunLen
			// as after a real HelloRetryRequest (key_share, cookie, ...), extensions may differ
			// between the two flights - those compressed into ech_outer_extensions change in the
			// second outer hello and the inner hello must be rebuilt from that one
			if rapid.Bool().Draw(t, "exts_change") {
				for i := range in2.Exts {
					ty := in2.Exts[i].Type
					if ty == hello.ExtSNI || ty == hello.ExtALPN || ty == hello.ExtECH || ty == hello.ExtSupportedVersions || ty == hello.ExtPSK || ty == hello.ExtOuterExtensions {
						continue
					}
					if rapid.IntRange(0, 2).Draw(t, "ext_changes") != 0 {
						continue
					}
					nd := hello.GenBytes(t, "ext2_data", rapid.IntRange(0, 40).Draw(t, "ext2_len"))
					in2.Exts[i].Data = nd
					if i >= runStart && i < runStart+runLen {
						if j := out2.Find(ty); j >= 0 {
							out2.Exts[j].Data = nd
							changedCompressed = true
						}
					}
				}
			}
			sealer := sc.Sealer
			first := false
			r := c06ClientRec{kind: kind, seq: -1, changed: changedCompressed}
			switch kind {
			case "ch_plain", "ch_no_ech":
				i := out2.Find(hello.ExtECH)
				out2.Exts = append(out2.Exts[:i], out2.Exts[i+1:]...)
				if kind == "ch_plain" && rapid.Bool().Draw(t, "plain_without_tls13") {
					// a hello from a client that gave up on TLS 1.3 altogether: no ECH extension and no
					// supported_versions either - what is missing is still the ECH extension
					if j := out2.Find(hello.ExtSupportedVersions); j >= 0 {
						out2.Exts = append(out2.Exts[:j], out2.Exts[j+1:]...)
					}
				}
				r.bytes = hello.Record(22, 0x0303, out2.Message())
				return r
			case "ch_outer_no_tls13":
				// retried outer hello that no longer offers TLS 1.3: cannot be a valid retry
				if i := out2.Find(hello.ExtSupportedVersions); i >= 0 {
					compressed := false
					for _, e := range tp.Inner.Exts[tp.RunStart : tp.RunStart+tp.RunLen] {
						compressed = compressed || e.Type == hello.ExtSupportedVersions
					}
					if compressed {
						runStart, runLen = 0, 0
					}
					if rapid.Bool().Draw(t, "no13_drop") {
						out2.Exts = append(out2.Exts[:i], out2.Exts[i+1:]...)
					} else {
						out2.Exts[i].Data = hello.VersionsExt([]uint16{0x0303})
					}
				}
			case "ch_outer_sni_changed":
				// authentic retried hello whose outer SNI is no longer the public name
				i := out2.Find(hello.ExtSNI)
				out2.Exts[i].Data = hello.SNIExt("not-the-public-name.example")
			case "ch_sni_changed":
				i := in2.Find(hello.ExtSNI)
				in2.Exts[i].Data = hello.SNIExt("changed." + tp.InnerName[:min(len(tp.InnerName), 200)])
			case "ch_alpn_changed", "ch_alpn_reordered":
				i := in2.Find(hello.ExtALPN)
				var na []string
				if kind == "ch_alpn_reordered" && len(tp.InnerALPN) >= 2 && tp.InnerALPN[0] != tp.InnerALPN[len(tp.InnerALPN)-1] {
					na = slices.Clone(tp.InnerALPN)
					slices.Reverse(na)
				} else {
					na = append(slices.Clone(tp.InnerALPN), "zz")
					r.kind = "ch_alpn_changed"
				}
				compressed := i >= runStart && i < runStart+runLen
				if compressed || i < 0 {
					runStart, runLen = 0, 0 // send the whole inner uncompressed
				}
				if i >= 0 {
					in2.Exts[i].Data = hello.ALPNExt(na)
				} else {
					// insert before a possible trailing PSK
					pos := len(in2.Exts)
					if pos > 0 && in2.Exts[pos-1].Type == hello.ExtPSK {
						pos--
					}
					in2.Exts = slices.Insert(in2.Exts, pos, hello.Ext{Type: hello.ExtALPN, Data: hello.ALPNExt(na)})
				}
			case "ch_no_inner_ext":
				i := in2.Find(hello.ExtECH)
				in2.Exts = append(in2.Exts[:i], in2.Exts[i+1:]...)
				if i < runStart {
					runStart--
				}
			case "ch_fresh_ctx":
				fs, err := hello.NewSealer(key.Config, key.Priv.PublicKey().Bytes(), sc.Suite, key.ID)
				if err != nil {
					t.Fatalf("harness: %v", err)
				}
				sealer = fs
			case "ch_seq_skip":
				sc.Sealer.Skip()
			case "ch_enc_nonempty":
				first = true
			}
			if sealer == sc.Sealer && hrrEnd < 0 && kind != "ch_seq_skip" && rapid.IntRange(0, 3).Draw(t, "spare_sender") != 0 {
				// no HRR yet: this hello should never be decrypted; do not burn the
				// main sender's sequence number on it
				fs, err := hello.NewSealer(key.Config, key.Priv.PublicKey().Bytes(), sc.Suite, key.ID)
				if err != nil {
					t.Fatalf("harness: %v", err)
				}
				sealer = fs
			}
			enc := hello.Encode(hello.Compress(in2, runStart, runLen), make([]byte, tp.Pad))
			if sealer == sc.Sealer {
				r.seq = sc.Sealer.Seq
			}
			msg, err := sealer.SealOuter(out2, enc, first)
			if err != nil {
				t.Fatalf("harness: %v", err)
			}
			if kind == "ch_other_id" || kind == "ch_other_suite" {
				i := out2.Find(hello.ExtECH)
				d := out2.Exts[i].Data
				if kind == "ch_other_id" {
					d[5] ^= byte(1 + uniform(t, "idflip", 255))
				} else {
					for _, s := range hello.AllSuites {
						if s != sc.Suite {
							d[3], d[4] = byte(s.AEAD>>8), byte(s.AEAD)
							break
						}
					}
				}
				msg = out2.Message()
			}
			if len(msg) > 16384 {
				t.Skip("too big")
			}
			r.bytes = hello.Record(22, 0x0303, msg)
			r.wantInner = hello.ExpectedInner(in2, out2).Message()
			return r
		}

		nops := rapid.IntRange(1, 14).Draw(t, "nops")
		aborted := false
		prefixHRR := rapid.IntRange(0, 2).Draw(t, "prefix_hrr") != 0
		readOne := func() {
			// backend reads one record
			cr := pendingClient[0]
			pendingClient = pendingClient[1:]
			hrrSeen := hrrEnd >= 0 && flushed >= hrrEnd
			isCH := strings.HasPrefix(cr.kind, "ch_")
			asRetry := isCH && hrrSeen && !retryDone && !clientAppData
			var got []byte
			e := guard(func() error { var e error; got, e = readOneRecord(c); return e })
			rp := map[string]any{"keys": keysReplay(serverKeys), "first_record": hx(sc.Record), "ops": ops, "record": hx(cr.bytes), "kind": cr.kind}
			if isPanic(e) {
				ev.Violation(t, "C06", rp, "panic: %v", e)
			}
			switch {
			case cr.kind == "first":
				if e != nil || !sameRecord(got, hello.Record(22, 0x0303, cr.wantInner)) {
					ev.Violation(t, "C06", rp, "first record is not the reconstructed inner (err=%v)", e)
				}
			case asRetry:
				retryDone = true
				wantClass := c06RetryClass[cr.kind]
				altClass := ""
				if cr.seq != recipientSeq {
					// sealed at a sequence number the recipient is not at: the
					// payload cannot open; defects checked before decryption keep their class
					if wantClass == "" {
						wantClass = "decrypt_error"
					} else {
						altClass = "decrypt_error"
					}
				}
				if wantClass == "" {
					if e != nil || !sameRecord(got, hello.Record(22, 0x0303, cr.wantInner)) {
						ev.Violation(t, "C06", map[string]any{"case": rp, "got": hx(got)}, "well-formed retried hello was not replaced by its reconstructed inner (err=%v)", e)
					}
					recipientSeq++
					cl = append(cl, "retry_ok")
					if cr.changed {
						cl = append(cl, "retry_ok_referenced_ext_changed")
					}
				} else {
					if e == nil {
						ev.Violation(t, "C06", rp, "ill-formed retried hello (%s) was forwarded (%d bytes) instead of %s", cr.kind, len(got), wantClass)
					}
					if len(got) > 0 {
						ev.Violation(t, "C06", rp, "%d bytes of an ill-formed retried hello (%s) reached the backend", len(got), cr.kind)
					}
					if errClass(e) == altClass && altClass != "" {
						wantClass = altClass
					}
					if strings.Contains(wantClass, "|") {
						for _, alt := range strings.Split(wantClass, "|") {
							if errClass(e) == alt {
								wantClass = alt
							}
						}
					}
					if errClass(e) != wantClass {
						ev.Violation(t, "C06", rp, "ill-formed retried hello (%s): error %q, want class %s", cr.kind, e, wantClass)
					}
					alertWant = []byte{0x15, 3, 3, 0, 2, 2, byte(alertClass[wantClass].desc)}
					aborted = true
					// a relay that polls or drains the connection calls Read again: still nothing of
					// the refused hello (nor anything else) comes out
					for k := 0; k < 3; k++ {
						buf := make([]byte, 1+uniform(t, "reread_buf", 20000))
						var n int
						e2 := guard(func() error { var e error; n, e = c.Read(buf); return e })
						if isPanic(e2) {
							ev.Violation(t, "C06", rp, "Read after the abort panicked: %v", e2)
						}
						if n > 0 || e2 == nil {
							ev.Violation(t, "C06", rp, "Read call %d after the aborting one returned (%d, %v): %d bytes reached the backend after an ill-formed retried hello (%s)", k+1, n, e2, n, cr.kind)
						}
					}
					cl = append(cl, "retry:"+cr.kind)
				}
			default:
				if e != nil || !bytes.Equal(got, cr.bytes) {
					ev.Violation(t, "C06", map[string]any{"case": rp, "got": hx(got)}, "record %s must be forwarded unchanged (hrr seen=%v retry done=%v client appdata=%v): err=%v, got %d bytes want %d", cr.kind, hrrSeen, retryDone, clientAppData, e, len(got), len(cr.bytes))
				}
				if isCH && !hrrSeen {
					cl = append(cl, "hello_without_hrr")
				}
				if isCH && clientAppData {
					cl = append(cl, "hello_after_appdata")
				}
				if isCH && retryDone {
					cl = append(cl, "third_hello_forwarded")
				}
				if cr.kind == "ch_good" && cr.seq == recipientSeq && false {
					recipientSeq++ // never: an unprocessed hello leaves the recipient untouched
				}
			}
			if cr.kind == "appdata" {
				clientAppData = true
			}
			if isCH && hrrSeen {
				sawCHAfterHRR = true
				if ccsSinceHRR {
					cl = append(cl, "ccs_between_hrr_and_hello")
				}
			}
		}
		if prefixHRR {
			// canonical start of a retry: the backend answers the first hello with an HRR
			ops = append(ops, "br:first")
			readOne()
			b := hrrRecord(tp.Outer.SessionID)
			hrrEnd = len(b)
			sawHRR = true
			backendQueued = append(backendQueued, b...)
			ops = append(ops, "bq:hrr")
			if rapid.Bool().Draw(t, "prefix_ccs") {
				backendQueued = append(backendQueued, hello.Record(20, 0x0303, []byte{1})...)
				ops = append(ops, "bq:ccs")
			}
			if rapid.IntRange(0, 3).Draw(t, "prefix_flush") != 0 {
				n := len(backendQueued)
				if rapid.IntRange(0, 3).Draw(t, "prefix_split") == 0 {
					k := 1 + uniform(t, "prefix_k", hrrEnd-1)
					if kk, e := c.Write(backendQueued[:k]); e != nil || kk != k {
						ev.Violation(t, "C06", map[string]any{"ops": ops}, "Write returned (%d,%v)", kk, e)
					}
					flushed = k
					hrrSplit = true
					ops = append(ops, fmt.Sprintf("bw:%d", k))
				}
				if kk, e := c.Write(backendQueued[flushed:n]); e != nil || kk != n-flushed {
					ev.Violation(t, "C06", map[string]any{"ops": ops}, "Write returned (%d,%v)", kk, e)
				}
				ops = append(ops, fmt.Sprintf("bw:%d", n-flushed))
				flushed = n
			}
		}
		for i := 0; i < nops && !aborted; i++ {
			if rapid.IntRange(0, 7).Draw(t, "other_client_now") == 0 {
				// the accept loop takes in another client meanwhile, served with the very same
				// options, whose hello the same key opens: handshakes of two clients overlap
				ops = append(ops, "other_connection_accepted")
				osl, err := hello.NewSealer(sc.Key.Config, sc.Key.Priv.PublicKey().Bytes(), sc.Suite, sc.Key.ID)
				if err != nil {
					t.Fatalf("harness: %v", err)
				}
				om, err := osl.SealOuter(sc.Tuple.Outer.Clone(), hello.Encode(hello.Compress(sc.Tuple.Inner, sc.Tuple.RunStart, sc.Tuple.RunLen), make([]byte, sc.Tuple.Pad)), true)
				if err != nil {
					t.Fatalf("harness: %v", err)
				}
				orec := hello.Record(22, sc.RecVer, om) // the same hello sealed afresh: another HPKE context
				oc, oe := newConn(context.Background(), wire.New(orec, io.EOF), echKeys(serverKeys...))
				if oe != nil || !oc.ECHAccepted() {
					ev.Violation(t, "C06", map[string]any{"keys": keysReplay(serverKeys), "client_stream": hx(orec)}, "a valid first hello on another connection was not accepted: %v", oe)
				}
				cl = append(cl, "other_connection_between_flights")
			}
			switch rapid.IntRange(0, 3).Draw(t, "op") {
			case 0: // client sends
				kind := c06ClientKinds[uniform(t, "ckind", len(c06ClientKinds))]
				var r c06ClientRec
				switch kind {
				case "ccs":
					r = c06ClientRec{kind: kind, bytes: hello.Record(20, 0x0303, []byte{1})}
					if hrrEnd >= 0 {
						ccsSinceHRR = true
					}
				case "hs_other":
					b := hello.GenBytes(t, "hs", rapid.IntRange(1, 60).Draw(t, "hslen"))
					if b[0] == 1 {
						b[0] = 20
					}
					r = c06ClientRec{kind: kind, bytes: hello.Record(22, 0x0303, b)}
				case "appdata":
					r = c06ClientRec{kind: kind, bytes: hello.Record(23, 0x0303, hello.GenBytes(t, "ad", rapid.IntRange(0, 60).Draw(t, "adlen")))}
				case "alert":
					r = c06ClientRec{kind: kind, bytes: hello.Record(21, 0x0303, []byte{1, 0})}
				default:
					r = mkHello(kind)
				}
				tr.Feed(r.bytes)
				pendingClient = append(pendingClient, r)
				ops = append(ops, "c:"+r.kind)
			case 1: // backend queues a record
				kind := c06BackendKinds[uniform(t, "bkind", len(c06BackendKinds))]
				var b []byte
				switch kind {
				case "hrr":
					if backendBlocksHRR && !backendAppData {
						continue // HRR after a ServerHello: undefined, not generated
					}
					if backendAppData {
						// after application data the stream is no longer interpreted:
						// this HelloRetryRequest must be ignored
						b = hrrRecord(tp.Outer.SessionID)
						backendQueued = append(backendQueued, b...)
						ops = append(ops, "bq:hrr_after_appdata")
						cl = append(cl, "hrr_after_backend_appdata")
						continue
					}
					if hrrEnd >= 0 {
						// a second HelloRetryRequest (before anything else that would end the
						// interpretation): still exactly one retry is processed
						b = hrrRecord(tp.Outer.SessionID)
						backendQueued = append(backendQueued, b...)
						ops = append(ops, "bq:hrr2")
						cl = append(cl, "double_hrr")
						continue
					}
					b = hrrRecord(tp.Outer.SessionID)
					if rapid.Bool().Draw(t, "hrr_exts") {
						b = hello.Record(22, 0x0303, serverHelloMsg(hrrRandom, tp.Outer.SessionID, []hello.Ext{{Type: 43, Data: []byte{3, 4}}, {Type: 51, Data: []byte{0, 0x1d}}, {Type: 44, Data: append([]byte{0, 8}, hello.GenBytes(t, "cookie", 8)...)}}))
					}
					hrrEnd = len(backendQueued) + len(b)
					sawHRR = true
				case "sh":
					rnd := hello.GenBytes(t, "shr", 32)
					rnd[0] |= 1 // never the HRR magic (0xCF is odd anyway; change another byte)
					rnd[1] = 0
					b = hello.Record(22, 0x0303, serverHelloMsg(rnd, tp.Outer.SessionID, []hello.Ext{{Type: 43, Data: []byte{3, 4}}}))
					backendBlocksHRR = true
				case "ccs":
					b = hello.Record(20, 0x0303, []byte{1})
				case "appdata":
					b = hello.Record(23, 0x0303, hello.GenBytes(t, "bad", rapid.IntRange(0, 80).Draw(t, "badlen")))
					backendBlocksHRR = true
					if hrrEnd < 0 {
						backendAppData = true
					}
				case "hs_other":
					x := hello.GenBytes(t, "bhs", rapid.IntRange(1, 40).Draw(t, "bhslen"))
					if x[0] == 2 {
						x[0] = 8
					}
					b = hello.Record(22, 0x0303, x)
				}
				backendQueued = append(backendQueued, b...)
				ops = append(ops, "bq:"+kind)
			case 2: // backend flushes part of its pending bytes
				if flushed == len(backendQueued) {
					continue
				}
				n := len(backendQueued) - flushed
				if rapid.Bool().Draw(t, "partial") {
					n = 1 + uniform(t, "flushn", n)
				}
				if hrrEnd >= 0 && flushed < hrrEnd && flushed+n < hrrEnd && flushed+n > hrrEnd-60 {
					hrrSplit = true
				}
				b := append(make([]byte, 0, n+4), backendQueued[flushed:flushed+n]...) // scratch buffer, scribbled over after the call
				var k int
				e := guard(func() error { var e error; k, e = c.Write(b); return e })
				for i := range b[:cap(b)] {
					b[:cap(b)][i] = 0xee
				}
				if e != nil || k != n {
					ev.Violation(t, "C06", map[string]any{"ops": ops, "first_record": hx(sc.Record)}, "Write returned (%d,%v) for %d bytes", k, e, n)
				}
				flushed += n
				ops = append(ops, fmt.Sprintf("bw:%d", n))
			case 3:
				if len(pendingClient) == 0 {
					continue
				}
				ops = append(ops, "br:"+pendingClient[0].kind)
				readOne()
			}
		}
		// drain
		for !aborted && len(pendingClient) > 0 {
			ops = append(ops, "br:"+pendingClient[0].kind)
			readOne()
		}
		if !aborted && flushed < len(backendQueued) {
			b := backendQueued[flushed:]
			if k, e := c.Write(b); e != nil || k != len(b) {
				ev.Violation(t, "C06", map[string]any{"ops": ops}, "final Write returned (%d,%v)", k, e)
			}
			flushed = len(backendQueued)
		}
		w, events := tr.Snapshot()
		wantW := append(append([]byte{}, backendQueued[:flushed]...), alertWant...)
		if !aborted {
			if !bytes.Equal(w, wantW) {
				ev.Violation(t, "C06", map[string]any{"ops": ops, "first_record": hx(sc.Record)}, "client received %d bytes, backend wrote %d", len(w), len(wantW))
			}
		} else {
			// everything complete that was flushed before, then exactly the alert, then close
			if !bytes.HasSuffix(w, alertWant) || !bytes.HasPrefix(backendQueued[:flushed], w[:len(w)-len(alertWant)]) {
				ev.Violation(t, "C06", map[string]any{"ops": ops, "first_record": hx(sc.Record), "transport": hx(w)}, "abort did not put exactly the fatal alert %x on the wire", alertWant)
			}
			closed := false
			for _, e := range events {
				if e.Kind == "close" {
					closed = true
				}
			}
			if !closed {
				ev.Violation(t, "C06", map[string]any{"ops": ops}, "alert not followed by Close")
			}
		}
		if hrrSplit {
			cl = append(cl, "hrr_split_across_writes")
		}
		kinds := make([]string, len(ops))
		for i, o := range ops {
			kinds[i] = strings.SplitN(o, "=", 2)[0]
			if strings.HasPrefix(o, "bw:") {
				kinds[i] = "bw"
			}
		}
		rec.Case(strings.Join(kinds, ","), sawHRR && sawCHAfterHRR, cl, func() any { return map[string]any{"ops": ops} })
	})
}

// TestC06Blocked: the client-to-backend reader is already blocked inside
// Conn.Read (as a relay's copy loop is) when the backend's answer to the first
// hello is written; the client's next records arrive afterwards. Whether the next
// ClientHello is a retry depends on what was written, not on when Read was entered.
func TestC06Blocked(t *testing.T) {
	rec := ev.Get("C06")
	rapid.Check(t, func(t *rapid.T) {
		sc := drawSealed(t, false)
		tp := sc.Tuple
		tr := wire.New(sc.Record, nil)
		c, err := newConn(context.Background(), tr, echKeys(sc.Key))
		if err != nil || !c.ECHAccepted() {
			ev.Violation(t, "C06", sc.replay(), "first hello not accepted: %v", err)
		}
		if got, e := readOneRecord(c); e != nil || !sameRecord(got, hello.Record(22, 0x0303, sc.WantInner)) {
			ev.Violation(t, "C06", sc.replay(), "first hello not forwarded as its inner hello: %v", e)
		}
		answer := rapid.SampledFrom([]string{"hrr", "hrr", "hrr", "server_hello"}).Draw(t, "backend_answer")
		second := rapid.SampledFrom([]string{"ch_good", "ch_good", "ch_plain"}).Draw(t, "second_hello")
		ccs := rapid.Bool().Draw(t, "ccs_before_hello2")
		in2 := tp.Inner.Clone()
		in2.Random = hello.GenBytes(t, "random2", 32)
		out2 := tp.Outer.Clone()
		out2.Random = hello.GenBytes(t, "orandom2", 32)
		var hello2, wantInner2 []byte
		if second == "ch_good" {
			msg2, e := sc.Sealer.SealOuter(out2, hello.Encode(hello.Compress(in2, tp.RunStart, tp.RunLen), make([]byte, tp.Pad)), false)
			if e != nil {
				t.Fatalf("harness: %v", e)
			}
			hello2 = hello.Record(22, 0x0303, msg2)
			wantInner2 = hello.Record(22, 0x0303, hello.ExpectedInner(in2, out2).Message())
		} else {
			i := out2.Find(hello.ExtECH)
			out2.Exts = append(out2.Exts[:i], out2.Exts[i+1:]...)
			hello2 = hello.Record(22, 0x0303, out2.Message())
		}
		var bw []byte
		if answer == "hrr" {
			bw = hrrRecord(tp.Outer.SessionID)
		} else {
			rnd := hello.GenBytes(t, "sh_random", 32)
			if bytes.Equal(rnd, hrrRandom) {
				rnd[0] ^= 1
			}
			bw = hello.Record(22, 0x0303, serverHelloMsg(rnd, tp.Outer.SessionID, []hello.Ext{{Type: 43, Data: []byte{3, 4}}}))
		}
		pieces := rapid.IntRange(1, 3).Draw(t, "answer_pieces")
		var cutsW []int
		for i := 1; i < pieces; i++ {
			cutsW = append(cutsW, 1+uniform(t, "wcut", len(bw)-1))
		}
		slices.Sort(cutsW)
		rp := map[string]any{"keys": keysReplay([]*hello.Key{sc.Key}), "client_stream": hx(sc.Record), "backend_answer": answer, "backend_bytes": hx(bw), "second_hello": second, "second_record": hx(hello2), "ccs_before": ccs}
		type rres struct {
			recs [][]byte
			err  error
		}
		nwant := 1
		if ccs {
			nwant = 2
		}
		done := make(chan rres, 1)
		// the relay's client-to-backend direction is either a loop of Reads or io.Copy(backend,
		// conn), which takes the Conn's io.WriterTo when it has one
		viaCopy := rapid.Bool().Draw(t, "reader_is_io_copy")
		go func() {
			var r rres
			if viaCopy {
				var sink bytes.Buffer
				r.err = guard(func() error { _, e := io.Copy(&sink, c); return e })
				for b := sink.Bytes(); len(b) >= 5; {
					l := 5 + (int(b[3])<<8 | int(b[4]))
					if l > len(b) {
						r.recs = append(r.recs, b) // a torso: reported as it is
						break
					}
					r.recs = append(r.recs, b[:l])
					b = b[l:]
				}
				done <- r
				return
			}
			for len(r.recs) < nwant {
				var got []byte
				e := guard(func() error { var e error; got, e = readOneRecord(c); return e })
				if e != nil {
					r.err = e
					break
				}
				r.recs = append(r.recs, got)
			}
			done <- r
		}()
		// wait until the reader is parked inside the transport's Read
		for i := 0; tr.Parked() == 0; i++ {
			if i > 200000 {
				t.Fatalf("harness: reader never blocked")
			}
			time.Sleep(20 * time.Microsecond)
		}
		// the client may answer the moment the backend's bytes are on the wire, i.e. before
		// the Write that carried them has returned to the backend's relay
		early := rapid.Bool().Draw(t, "client_answers_before_write_returns")
		var r rres
		gotEarly, fired := false, false
		if early {
			tr.OnWrite = func(total int) {
				if total < len(bw) || fired {
					return
				}
				fired = true // only the write that completes the backend's answer triggers the client
				if ccs {
					tr.Feed(hello.Record(20, 0x0303, []byte{1}))
				}
				tr.Feed(hello2)
				if viaCopy {
					tr.Finish(io.EOF)
				}
				select {
				case r = <-done:
					gotEarly = true
				case <-time.After(30 * time.Second):
				}
			}
		}
		// the relay's other direction writes while the reader is parked: the Write returns (a
		// Conn whose Write waits for its own pending Read would hang here - the watchdog reports it)
		werr := ""
		rp["while"] = "Write of the backend's answer while a Read is pending"
		watch("C06", rp, func() {
			prev := 0
			for _, k := range append(cutsW, len(bw)) {
				if k <= prev {
					continue
				}
				if n, e := c.Write(bw[prev:k]); e != nil || n != k-prev {
					werr = fmt.Sprintf("Write of the backend's answer returned (%d, %v)", n, e)
					return
				}
				prev = k
			}
		})
		delete(rp, "while")
		if werr != "" {
			ev.Violation(t, "C06", rp, "%s", werr)
		}
		tr.OnWrite = nil
		if !early {
			if ccs {
				tr.Feed(hello.Record(20, 0x0303, []byte{1}))
			}
			tr.Feed(hello2)
			if viaCopy {
				tr.Finish(io.EOF)
			}
		}
		if !gotEarly {
			select {
			case r = <-done:
			case <-time.After(30 * time.Second):
				t.Fatalf("harness: reader did not return within 30 s")
			}
		}
		if isPanic(r.err) {
			ev.Violation(t, "C06", rp, "panic in Read: %v", r.err)
		}
		if ccs && (len(r.recs) < 1 || !bytes.Equal(r.recs[0], hello.Record(20, 0x0303, []byte{1}))) {
			ev.Violation(t, "C06", rp, "the change_cipher_spec before the second hello was not forwarded unchanged (err=%v)", r.err)
		}
		w, _ := tr.Snapshot()
		switch {
		case answer == "hrr" && second == "ch_good":
			if r.err != nil || len(r.recs) != nwant || !sameRecord(r.recs[nwant-1], wantInner2) {
				ev.Violation(t, "C06", map[string]any{"case": rp, "want": hx(wantInner2), "got": fmt.Sprintf("%x", r.recs)}, "reader blocked before the HelloRetryRequest was written: the retried hello was not replaced by its reconstructed inner hello (err=%v)", r.err)
			}
			if !bytes.Equal(w, bw) {
				ev.Violation(t, "C06", rp, "client received %x, backend wrote %x", w, bw)
			}
		case answer == "hrr":
			if r.err == nil || !errors.Is(r.err, alertClass["missing_extension"].err) {
				ev.Violation(t, "C06", rp, "reader blocked before the HelloRetryRequest was written: a second hello without ECH was not aborted with missing_extension (err=%v, %d records forwarded)", r.err, len(r.recs))
			}
			wantW := append(append([]byte{}, bw...), 0x15, 3, 3, 0, 2, 2, byte(alertClass["missing_extension"].desc))
			if len(w) != len(wantW) || !bytes.Equal(w[:len(bw)], bw) || !bytes.Equal(w[len(bw)+3:], wantW[len(bw)+3:]) || !tr.Closed() {
				ev.Violation(t, "C06", rp, "client did not receive the HelloRetryRequest followed by one fatal missing_extension alert and end of stream (got %x, closed=%v)", w, tr.Closed())
			}
		default:
			if r.err != nil || len(r.recs) != nwant || !bytes.Equal(r.recs[nwant-1], hello2) {
				ev.Violation(t, "C06", rp, "no HelloRetryRequest was written: the second hello must be forwarded unchanged (err=%v)", r.err)
			}
		}
		rec.Case(fmt.Sprintf("blocked|%s|%s|%v|%d", answer, second, ccs, pieces), answer == "hrr", []string{"reader_blocked_before_answer", "blocked:" + answer + ":" + second, fmt.Sprintf("client_answers_before_write_returns:%v", early)}, func() any {
			return map[string]any{"kind": "reader_blocked_before_answer", "answer": answer, "second": second, "ccs": ccs, "pieces": pieces}
		})
	})
}
