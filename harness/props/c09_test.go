package props

import (
	"bytes"
	"context"
	"fmt"
	"io"
	"slices"
	"strings"
	"testing"

	"github.com/c2FmZQ/ech"
	"pgregory.net/rapid"

	"verif/harness/ev"
	"verif/harness/hello"
	"verif/harness/wire"
)

var hrrRandom = []byte{0xCF, 0x21, 0xAD, 0x74, 0xE5, 0x9A, 0x61, 0x11, 0xBE, 0x1D, 0x8C, 0x02, 0x1E, 0x65, 0xB8, 0x91,
	0xC2, 0xA2, 0x11, 0x16, 0x7A, 0xBB, 0x8C, 0x5E, 0x07, 0x9E, 0x09, 0xE2, 0xC8, 0xA8, 0x33, 0x9C}

// serverHelloMsg builds a ServerHello (or, with the magic random, a HelloRetryRequest).
func serverHelloMsg(random, sid []byte, exts []hello.Ext) []byte {
	b := []byte{3, 3}
	b = append(b, random...)
	b = append(b, byte(len(sid)))
	b = append(b, sid...)
	b = append(b, 0x13, 0x01, 0)
	eb := hello.ExtBlock(exts)
	b = append(b, byte(len(eb)>>8), byte(len(eb)))
	b = append(b, eb...)
	return hello.Msg(2, b)
}

func hrrRecord(sid []byte) []byte {
	return hello.Record(22, 0x0303, serverHelloMsg(hrrRandom, sid, []hello.Ext{{Type: 43, Data: []byte{3, 4}}, {Type: 51, Data: []byte{0, 0x17}}}))
}

// outcome of driving one connection: first hello, optional HRR + retried hello.
type connOutcome struct {
	Err1     string
	Accepted bool
	Rec1     []byte
	SNI      string
	ALPN     string
	Err2     string
	Rec2     []byte
	Alert    []byte
}

func (o connOutcome) String() string {
	return fmt.Sprintf("err1=%q accepted=%v rec1=%d bytes sni=%q alpn=%q err2=%q rec2=%d bytes alert=%x", o.Err1, o.Accepted, len(o.Rec1), o.SNI, o.ALPN, o.Err2, len(o.Rec2), o.Alert)
}

func errClass(err error) string {
	if err == nil {
		return ""
	}
	if isPanic(err) {
		return "panic"
	}
	for n, c := range alertClass {
		if strings.Contains(err.Error(), c.err.Error()) {
			return n
		}
	}
	if err == io.EOF {
		return "eof"
	}
	return "other:" + err.Error()
}

// c09Arena is the long-lived backing array of the server's key slice (see drive).
var c09Arena = make([]ech.Key, 160)

// drive runs the flow twice over the SAME Option values (an application builds its options
// once and hands them to NewConn for every connection it accepts) and requires the second
// connection to fare exactly like the first.
func drive(keys []*hello.Key, stream []byte, hrr []byte) connOutcome {
	var opts []ech.Option
	first := driveOnce(keys, stream, hrr, &opts)
	second := driveOnce(keys, stream, hrr, &opts)
	if !sameOutcome(first, second) {
		first.Err2 += "|a second connection given the same Option values fares differently: " + second.String()
	}
	return first
}

func driveOnce(keys []*hello.Key, stream []byte, hrr []byte, opts *[]ech.Option) connOutcome {
	var o connOutcome
	tr := wire.New(stream, io.EOF)
	// the key list reaches NewConn the way an application assembling it from two sources
	// does: two WithKeys options, the first one a slice with spare capacity that the
	// application keeps using for its other connections
	all := echKeys(keys...)
	split := (len(all) + 1) / 2
	// the application keeps ONE long-lived key slice and replaces its elements in place when
	// keys rotate: every call here reuses the same backing array for whatever list it is given
	base := c09Arena[: split : split+3]
	if *opts == nil {
		for i := range c09Arena {
			c09Arena[i] = ech.Key{}
		}
		copy(base, all[:split])
		switch {
		case keys == nil:
			*opts = []ech.Option{}
		case len(all) > split:
			*opts = []ech.Option{ech.WithKeys(base), ech.WithKeys(all[split:])}
		default:
			*opts = []ech.Option{ech.WithKeys(base)}
		}
	}
	var c *ech.Conn
	err := guard(func() error {
		var e error
		c, e = ech.NewConn(context.Background(), tr, *opts...)
		return e
	})
	interloper := func() {
		if keys == nil {
			return
		}
		// another connection of the same application: same base slice, another extra key
		guard(func() error {
			ech.NewConn(context.Background(), wire.New(stream, io.EOF), ech.WithKeys(base), ech.WithKeys(echKeys(c08FixedKey)))
			return nil
		})
		for _, k := range base[:cap(base)][split:] {
			if k.Config != nil || k.PrivateKey != nil {
				o.Err2 += "|NewConn wrote into the spare capacity of the caller's key slice"
			}
		}
	}
	o.Err1 = errClass(err)
	if err != nil {
		o.Alert, _ = tr.Snapshot()
		return o
	}
	o.Accepted = c.ECHAccepted()
	o.SNI = c.ServerName()
	o.ALPN = strings.Join(c.ALPNProtos(), ",")
	e := guard(func() error { var e error; o.Rec1, e = readOneRecord(c); return e })
	if e != nil {
		o.Err1 = "read1:" + errClass(e)
		return o
	}
	interloper()
	if hrr == nil {
		return o
	}
	if e := guard(func() error { _, e := c.Write(hrr); return e }); e != nil {
		o.Err2 = "write:" + errClass(e)
		return o
	}
	e = guard(func() error { var e error; o.Rec2, e = readOneRecord(c); return e })
	o.Err2 = errClass(e) + o.Err2
	w, _ := tr.Snapshot()
	o.Alert = w[min(len(w), len(hrr)):]
	return o
}

func sameOutcome(a, b connOutcome) bool {
	recEq := func(x, y []byte) bool {
		if len(x) != len(y) {
			return false
		}
		if len(x) < 5 {
			return bytes.Equal(x, y)
		}
		return sameRecord(x, y)
	}
	return a.Err1 == b.Err1 && a.Accepted == b.Accepted && recEq(a.Rec1, b.Rec1) && a.SNI == b.SNI && a.ALPN == b.ALPN && a.Err2 == b.Err2 && recEq(a.Rec2, b.Rec2) && bytes.Equal(a.Alert, b.Alert)
}

func TestC09(t *testing.T) {
	rec := ev.Get("C09")
	rec.Rule("target key T, a hello sealed to T (C03 generator) and, in half of the cases, an HRR plus a well-formed retried hello; hellos up to the record limit in a third of the cases; key lists of 1..6 entries (in 4% of the cases 60..140 more keys under other ids) drawn from {T, same-id keys with equal/different suite lists, other-id keys, same-id keys with another public name}, every position of T, T absent, two drawn orders. The list is handed over in two WithKeys options (the first a slice with spare capacity that another connection of the application reuses in between). Metamorphic oracle: outcome(list) == outcome([T]) when T is in the list, == outcome([]) otherwise; outcome = (error class, accepted, first record, SNI, ALPN, second record/error, alert bytes). distinct = list shape; non-trivial = list holds another key with T's id")
	rec.Mandatory("T_first_sameid_neighbour", "T_middle_sameid_neighbour", "T_last_sameid_neighbour", "T_absent_sameid_present", "retry", "permuted")
	rapid.Check(t, func(t *rapid.T) {
		// a third of the hellos may be large (up to the record limit): what a trial costs
		// must not decide whether the right key gets its turn
		bigHello := rapid.IntRange(0, 2).Draw(t, "big_hello") == 0
		sc := drawSealed(t, bigHello)
		T := sc.Key
		stream := append([]byte{}, sc.Record...)
		var hrr []byte
		withRetry := rapid.Bool().Draw(t, "with_retry")
		if withRetry {
			hrr = hrrRecord(sc.Tuple.Outer.SessionID)
			// retried hello: same inner name/ALPN, new random
			in2 := sc.Tuple.Inner.Clone()
			in2.Random = hello.GenBytes(t, "random2", 32)
			out2 := sc.Tuple.Outer.Clone()
			enc2 := hello.Encode(hello.Compress(in2, sc.Tuple.RunStart, sc.Tuple.RunLen), make([]byte, sc.Tuple.Pad))
			m2, err := sc.Sealer.SealOuter(out2, enc2, false)
			if err != nil {
				t.Fatalf("harness: %v", err)
			}
			if rapid.Bool().Draw(t, "ccs") {
				stream = append(stream, hello.Record(20, 0x0303, []byte{1})...)
				stream = append(stream, hello.Record(22, 0x0303, m2)...)
			} else {
				stream = append(stream, hello.Record(22, 0x0303, m2)...)
			}
		}
		// other keys
		n := rapid.IntRange(0, 3).Draw(t, "n_other")
		crowd := bigHello && rapid.Bool().Draw(t, "big_hello_many_others")
		if crowd {
			n = 3 + rapid.IntRange(0, 2).Draw(t, "n_other_more")
		}
		var others []*hello.Key
		var shape []string
		sameIDOther := false
		for i := 0; i < n; i++ {
			var k *hello.Key
			kind := rapid.IntRange(0, 4).Draw(t, "other_kind")
			if crowd && kind > 2 {
				kind = 0 // a crowd of keys that all pass the id / suite filter
			}
			switch kind {
			case 4: // the target's own key pair re-issued under another config (other id / name / suites)
				id := T.ID
				if rapid.Bool().Draw(t, "samepriv_otherid") {
					id = T.ID + uint8(1+rapid.IntRange(0, 253).Draw(t, "samepriv_idoff"))
				} else {
					sameIDOther = true
				}
				name := T.PublicName
				if id == T.ID || rapid.Bool().Draw(t, "samepriv_othername") {
					name = "reissued." + T.PublicName[:min(len(T.PublicName), 200)]
				}
				k, _ = hello.NewKey(T.Priv.Bytes(), id, name, drawKey(t, fmt.Sprintf("o%d", i), int(id), name).Suites)
				shape = append(shape, "same_private_key_other_config")
			case 0: // same id, same suites
				k = drawKey(t, fmt.Sprintf("o%d", i), int(T.ID), T.PublicName)
				k, _ = hello.NewKey(k.Priv.Bytes(), T.ID, T.PublicName, T.Suites)
				shape = append(shape, "sameid_samesuites")
				sameIDOther = true
			case 1: // same id, drawn suites
				k = drawKey(t, fmt.Sprintf("o%d", i), int(T.ID), T.PublicName)
				shape = append(shape, fmt.Sprintf("sameid_suites%d", len(k.Suites)))
				sameIDOther = true
			case 2: // same id, other public name
				k = drawKey(t, fmt.Sprintf("o%d", i), int(T.ID), "other."+T.PublicName[:min(len(T.PublicName), 200)])
				shape = append(shape, "sameid_othername")
				sameIDOther = true
			default:
				k = drawKey(t, fmt.Sprintf("o%d", i), (int(T.ID)+1+rapid.IntRange(0, 253).Draw(t, "idoff"))%256, T.PublicName)
				shape = append(shape, "otherid")
			}
			others = append(others, k)
		}
		if rapid.IntRange(0, 24).Draw(t, "hosting_provider") == 0 {
			// one key per hosted name: the list is long (well over 64 entries), mostly other ids
			for i, m := 0, rapid.IntRange(60, 140).Draw(t, "many_keys"); i < m; i++ {
				others = append(others, drawKey(t, fmt.Sprintf("h%d", i), (int(T.ID)+1+i%255)%256, fmt.Sprintf("host%d.%s", i, T.PublicName[:min(len(T.PublicName), 200)])))
			}
			shape = append(shape, "many_otherid")
		}
		present := rapid.IntRange(0, 4).Draw(t, "T_present") != 0
		list := append([]*hello.Key{}, others...)
		pos := -1
		if present {
			pos = uniform(t, "T_pos", len(others)+1)
			if crowd && rapid.Bool().Draw(t, "T_last") {
				pos = len(others)
			}
			list = append(append(append([]*hello.Key{}, others[:pos]...), T), others[pos:]...)
		}
		if len(list) == 0 {
			list = []*hello.Key{T}
			present, pos = true, 0
		}
		var ref connOutcome
		if present {
			ref = drive([]*hello.Key{T}, stream, hrr)
			if !ref.Accepted || ref.Err1 != "" || (withRetry && (ref.Err2 != "" || len(ref.Rec2) == 0)) {
				// single-key reference must accept: that is C03/C06's business; report here too, it is a genuine failure
				ev.Violation(t, "C09", map[string]any{"keys": keysReplay([]*hello.Key{T}), "client_stream": hx(stream), "hrr": hx(hrr)}, "reference run with the single target key failed: %s", ref)
			}
		} else {
			ref = drive(nil, stream, nil)
			hrrForAbsent := []byte(nil)
			_ = hrrForAbsent
		}
		cl := []string{fmt.Sprintf("listlen%d", len(list))}
		if present && sameIDOther {
			switch {
			case pos == 0:
				cl = append(cl, "T_first_sameid_neighbour")
			case pos == len(list)-1:
				cl = append(cl, "T_last_sameid_neighbour")
			default:
				cl = append(cl, "T_middle_sameid_neighbour")
			}
		}
		if !present && sameIDOther {
			cl = append(cl, "T_absent_sameid_present")
		}
		if withRetry && present {
			cl = append(cl, "retry")
		}
		check := func(l []*hello.Key, what string) {
			var got connOutcome
			if present {
				got = drive(l, stream, hrr)
			} else {
				got = drive(l, stream, nil)
			}
			if !sameOutcome(got, ref) {
				ev.Violation(t, "C09", map[string]any{"keys": keysReplay(l), "client_stream": hx(stream), "hrr": hx(hrr), "target_present": present, "target_pos": pos, "shape": shape, "expect": "same_as_reference"},
					"outcome depends on the other keys (%s; T present=%v at %d; others=%v):\n  with list: %s\n  reference: %s", what, present, pos, shape, got, ref)
			}
		}
		check(list, "drawn order")
		if len(list) > 1 {
			perm := rapid.Permutation(list).Draw(t, "perm")
			check(perm, "permuted order")
			cl = append(cl, "permuted")
		}
		// every key the server holds serves its own clients, also after connections that were
		// accepted under another key of the same key material (same Option values, same slices)
		if present && len(others) > 0 && len(others) <= 6 && rapid.IntRange(0, 2).Draw(t, "then_a_client_of_another_key") == 0 {
			K := others[uniform(t, "other_target", len(others))]
			tpK := hello.GenTuple(t, hello.TupleOpts{PublicName: K.PublicName})
			if in, out := tpK.Sizes(); in <= 16000 && out <= 16000 {
				slK, err := hello.NewSealer(K.Config, K.Priv.PublicKey().Bytes(), K.Suites[0], K.ID)
				if err != nil {
					t.Fatalf("harness: %v", err)
				}
				mK, err := slK.SealOuter(tpK.Outer, hello.Encode(hello.Compress(tpK.Inner, tpK.RunStart, tpK.RunLen), make([]byte, tpK.Pad)), true)
				if err != nil {
					t.Fatalf("harness: %v", err)
				}
				recK := hello.Record(22, 0x0303, mK)
				var opts []ech.Option
				o1 := driveOnce(list, stream, hrr, &opts)
				o2 := driveOnce(list, recK, nil, &opts)
				o3 := driveOnce(list, stream, hrr, &opts)
				if !o2.Accepted || o2.Err1 != "" {
					ev.Violation(t, "C09", map[string]any{"keys": keysReplay(list), "first_client_stream": hx(stream), "client_stream": hx(recK), "others": shape}, "after a connection accepted under the target key (%s), a hello encrypted to another held key (position %d of the others) is not accepted: %s", o1, slices.Index(others, K), o2)
				}
				if !sameOutcome(o1, o3) {
					ev.Violation(t, "C09", map[string]any{"keys": keysReplay(list), "client_stream": hx(stream), "others": shape}, "the target's client fares differently after a client of another key was served: %s, before %s", o3, o1)
				}
				cl = append(cl, "client_of_another_held_key")
			}
		}
		rec.Case(fmt.Sprintf("%v|%d|%v|%v", shape, pos, withRetry, present), sameIDOther, cl, func() any {
			return map[string]any{"others": shape, "target_pos": pos, "target_present": present, "retry": withRetry}
		})
	})
}
