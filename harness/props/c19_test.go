package props

import (
	"context"
	"crypto/tls"
	"errors"
	"fmt"
	"io"
	"net"
	"net/http"
	"net/url"
	"slices"
	"sort"
	"strings"
	"sync"
	"sync/atomic"
	"testing"
	"time"

	"github.com/c2FmZQ/ech"
	"github.com/c2FmZQ/ech/dns"
	"pgregory.net/rapid"

	"verif/harness/dnsfx"
	"verif/harness/ev"
	"verif/harness/hello"
)

// ---- shared real servers ---------------------------------------------------

type c19Hit struct {
	Server     int
	ReqID      string
	Host       string
	SNI        string
	Proto      string
	RemoteAddr string
	ConnID     int64 // unique per accepted connection (ephemeral ports get reused)
	TLS        bool
	ECH        bool
}

type c19ConnKey struct{}

var c19ConnCounter atomic.Int64

type c19Servers struct {
	mu    sync.Mutex
	hits  []c19Hit
	addrs []string // real TLS listener addresses
	plain string   // real plaintext listener address
	key   *hello.Key
}

var (
	c19Once sync.Once
	c19S    *c19Servers
)

func c19Start(t interface{ Fatalf(string, ...any) }) *c19Servers {
	c19Once.Do(func() {
		s := &c19Servers{}
		seed := make([]byte, 32)
		copy(seed, "c19 ech key seed................")
		s.key, _ = hello.NewKey(seed, 77, "public.c19.example", hello.AllSuites)
		for i := 0; i < 3; i++ {
			idx := i
			ln, err := net.Listen("tcp", "127.0.0.1:0")
			if err != nil {
				t.Fatalf("harness: %v", err)
			}
			cfg := &tls.Config{
				NextProtos: []string{"h2", "http/1.1"},
				GetCertificate: func(chi *tls.ClientHelloInfo) (*tls.Certificate, error) {
					name := chi.ServerName
					if name == "" {
						name = "fd00::1"
					}
					c := leafFor(t, 0, false, name, "fd00::1", "fd00::2", "127.0.0.1")
					return &c, nil
				},
				EncryptedClientHelloKeys: []tls.EncryptedClientHelloKey{{Config: s.key.Config, PrivateKey: s.key.Priv.Bytes(), SendAsRetry: true}},
			}
			srv := &http.Server{Handler: http.HandlerFunc(func(w http.ResponseWriter, r *http.Request) {
				h := c19Hit{Server: idx, ReqID: r.Header.Get("X-Req-Id"), Host: r.Host, Proto: r.Proto, RemoteAddr: r.RemoteAddr, TLS: r.TLS != nil}
				h.ConnID, _ = r.Context().Value(c19ConnKey{}).(int64)
				if r.TLS != nil {
					h.SNI, h.ECH = r.TLS.ServerName, r.TLS.ECHAccepted
				}
				s.mu.Lock()
				s.hits = append(s.hits, h)
				s.mu.Unlock()
				fmt.Fprintf(w, "server=%d host=%s", idx, r.Host)
			}), TLSConfig: cfg, ConnContext: func(ctx context.Context, c net.Conn) context.Context {
				return context.WithValue(ctx, c19ConnKey{}, c19ConnCounter.Add(1))
			}}
			go srv.ServeTLS(ln, "", "")
			s.addrs = append(s.addrs, ln.Addr().String())
		}
		pl, err := net.Listen("tcp", "127.0.0.1:0")
		if err != nil {
			t.Fatalf("harness: %v", err)
		}
		go http.Serve(pl, http.HandlerFunc(func(w http.ResponseWriter, r *http.Request) {
			s.mu.Lock()
			s.hits = append(s.hits, c19Hit{Server: -1, ReqID: r.Header.Get("X-Req-Id"), Host: r.Host, RemoteAddr: r.RemoteAddr})
			s.mu.Unlock()
		}))
		s.plain = pl.Addr().String()
		c19S = s
	})
	return c19S
}

// ---- fake HTTP/3 round tripper -----------------------------------------------

type c19H3 struct {
	mu    sync.Mutex
	calls []c19H3Call
}

type c19H3Call struct {
	ReqID   string
	Host    string
	Targets []string
	SNI     []string
}

func (h *c19H3) RoundTrip(req *http.Request) (*http.Response, error) {
	call := c19H3Call{ReqID: req.Header.Get("X-Req-Id"), Host: req.Host}
	d := &ech.Dialer[*fakeConn]{MaxConcurrency: 1, ConcurrencyDelay: time.Millisecond, Timeout: time.Second,
		DialFunc: func(ctx context.Context, network, addr string, tc *tls.Config) (*fakeConn, error) {
			call.Targets = append(call.Targets, addr)
			call.SNI = append(call.SNI, tc.ServerName)
			return nil, errors.New("h3 target down")
		}}
	addr := req.URL.Host
	if _, _, err := net.SplitHostPort(addr); err != nil {
		addr = net.JoinHostPort(strings.Trim(addr, "[]"), "443")
	}
	d.Dial(req.Context(), "udp", addr, nil)
	h.mu.Lock()
	h.calls = append(h.calls, call)
	h.mu.Unlock()
	return &http.Response{StatusCode: 200, Proto: "HTTP/3.0", ProtoMajor: 3, Header: http.Header{"X-Via": {"h3"}}, Body: io.NopCloser(strings.NewReader("h3")), Request: req}, nil
}

// rtCheck wraps the Transport and checks that the response is bound to the
// request object the Transport was given (http.Client may clone the caller's).
type rtCheck struct {
	inner    http.RoundTripper
	mu       sync.Mutex
	mismatch bool
	mutated  string
}

func reqShape(req *http.Request) string {
	keys := make([]string, 0, len(req.Header))
	for k := range req.Header {
		keys = append(keys, k+"="+strings.Join(req.Header[k], ","))
	}
	sort.Strings(keys)
	return fmt.Sprintf("%s %s host=%q hdr=%v", req.Method, req.URL.String(), req.Host, keys)
}

func (r *rtCheck) RoundTrip(req *http.Request) (*http.Response, error) {
	before := reqShape(req)
	resp, err := r.inner.RoundTrip(req)
	if after := reqShape(req); after != before {
		r.mu.Lock()
		r.mutated = fmt.Sprintf("before: %s after: %s", before, after)
		r.mu.Unlock()
	}
	if err == nil && resp != nil && resp.Request != req {
		r.mu.Lock()
		r.mismatch = true
		r.mu.Unlock()
	}
	return resp, err
}

// ---- origins -------------------------------------------------------------------

type c19Origin struct {
	Scheme string
	Host   string // without brackets
	Port   int    // 0 = default
	Server int
	HTTPS  []dns.HTTPS // service records published at the RFC 9460 name
	Alias  bool
}

func (o c19Origin) authority() string {
	h := o.Host
	if strings.Contains(h, ":") {
		h = "[" + h + "]"
	}
	if o.Port > 0 {
		return fmt.Sprintf("%s:%d", h, o.Port)
	}
	return h
}

// originKey identifies the (https) origin a request for o ends up at: an http URL is
// upgraded keeping its explicit port, and a missing port is the scheme's default after the
// upgrade, so https://h, https://h:443 and http://h are one origin, https://h:80 another.
func (o c19Origin) originKey() string {
	port := o.Port
	if port == 0 {
		port = 443
	}
	return fmt.Sprintf("https|%s|%d", o.Host, port)
}
func (o c19Origin) url() string { return o.Scheme + "://" + o.authority() + "/x" }

func usableTCP(h dns.HTTPS) bool {
	return len(h.ALPN) == 0 || !h.NoDefaultALPN || slices.Contains(h.ALPN, "h2") || slices.Contains(h.ALPN, "http/1.1")
}

func TestC19(t *testing.T) {
	rec := ev.Get("C19")
	rec.Rule("per case a loopback deployment: 2..4 origins (distinct host names incl. IPv6 literals, several hosts on one listener, default and explicit ports, http and https URLs), each answered by a real crypto/tls HTTP server that issues a certificate for the requested SNI from the test CA and supports ECH, HTTPS RRsets drawn from none / service records with ALPN sets over {h3,h2,http/1.1,other}, no-default-alpn, distinct priorities, port=, ech=, targets / an alias to another name; Transport with or without a recording HTTP/3 round-tripper that dials through ech.Dialer with the request context; some targets marked down; 3..10 GETs across the origins with connection reuse. Oracle: plaintext refusal (http without HTTPS records fails, nothing reaches a server), http upgraded when HTTPS records exist, every request seen by a server carries the original Host, arrives with SNI = URL host on a connection dialed for that host and port, h3 chosen iff the reference decision over the record set says so and then exactly the h3-capable targets are offered (otherwise the h2/http1.1-compatible ones, in order), resp.Request is the caller's request and RoundTrip leaves that request (method, URL, Host, headers) unmodified. distinct = (origin shapes, record sets, request order); non-trivial = 2+ origins share an address or a record offers h3")
	rec.Mandatory("host_override", "same_host_other_port", "http_upgrade", "plaintext_refused", "h3_chosen", "h3_not_chosen_with_h3_record", "same_address_different_hosts", "ipv6_literal", "conn_reused", "explicit_port", "alias", "target_down", "same_host_port80_vs_default", "dialer_resolver_set")
	rapid.Check(t, func(t *rapid.T) {
		S := c19Start(t)
		var cl []string
		z := dnsfx.NewZone()
		z.Version = 1
		echList, _ := ech.ConfigList([]ech.Config{S.key.Config})
		// origins
		no := rapid.IntRange(2, 4).Draw(t, "norigins")
		var origins []c19Origin
		fake := map[string]int{}  // "ip:port" -> server index
		down := map[string]bool{} // targets marked down
		nip := 0
		newIP := func(server int, port int, v6 bool) net.IP {
			nip++
			ip := net.IP{10, 9, byte(server), byte(nip)}
			if v6 {
				ip = net.IP{0xfd, 0x09, 0, 0, 0, 0, 0, 0, 0, 0, 0, 0, 0, byte(server), 0, byte(nip)}
			}
			return ip
		}
		hostsOnServer := map[int]int{}
		hostServer := map[string]int{}
		for i := 0; i < no; i++ {
			o := c19Origin{Scheme: rapid.SampledFrom([]string{"https", "https", "http"}).Draw(t, "scheme"), Server: rapid.IntRange(0, 2).Draw(t, "server")}
			switch rapid.IntRange(0, 7).Draw(t, "hostkind") {
			case 0:
				o.Host = fmt.Sprintf("fd00::%d", 1+i%2)
				cl = append(cl, "ipv6_literal")
			default:
				o.Host = fmt.Sprintf("o%d.c19.example", i)
			}
			if rapid.IntRange(0, 2).Draw(t, "explicit_port") == 0 {
				o.Port = rapid.SampledFrom([]int{8443, 9443, 443, 8080, 80}).Draw(t, "port")
				cl = append(cl, "explicit_port")
			}
			if i > 0 && rapid.IntRange(0, 2).Draw(t, "same_host") == 0 {
				// same host as an earlier origin, on another port (and maybe another server)
				prev := origins[rapid.IntRange(0, len(origins)-1).Draw(t, "same_host_as")]
				o.Host = prev.Host
				o.Server = prev.Server // one host name lives on one server
				o.Scheme = "https"
				for _, p := range rapid.Permutation([]int{8443, 9443, 8080, 7001, 80, 80}).Draw(t, "same_host_port") {
					if p != prev.Port {
						o.Port = p
					}
				}
				if o.Port == 80 {
					cl = append(cl, "same_host_port80_vs_default")
				}
				for _, q := range origins {
					if q.Host == o.Host && q.Port == o.Port {
						o.Port = 7002 + i
					}
				}
				cl = append(cl, "same_host_other_port")
			}
			if sv, ok := hostServer[o.Host]; ok {
				o.Server = sv // one host name lives on one server
			}
			hostServer[o.Host] = o.Server
			hostsOnServer[o.Server]++
			literal := strings.Contains(o.Host, ":")
			port := o.Port
			if port == 0 {
				port = 443
				if o.Scheme == "http" {
					port = 80
				}
			}
			if literal {
				fake[net.JoinHostPort(o.Host, fmt.Sprint(port))] = o.Server
				origins = append(origins, o)
				continue
			}
			// addresses of the host
			for k, n := 0, rapid.IntRange(1, 2).Draw(t, "naddr"); k < n && (k > 0 || len(z.A[o.Host]) == 0) && len(z.A[o.Host]) < 2; k++ {
				ip := newIP(o.Server, port, false)
				z.A[o.Host] = append(z.A[o.Host], dnsfx.ZRec{TTL: 60, IP: ip})
			}
			// HTTPS records
			svcb := o.Host
			if port != 80 && port != 443 {
				svcb = fmt.Sprintf("_%d._https.%s", port, o.Host)
			}
			owner := svcb
			kind := rapid.IntRange(0, 5).Draw(t, "rrkind")
			if kind == 1 {
				owner = "alias-" + o.Host
				z.HTTPS[svcb] = []dnsfx.ZRec{{TTL: 60, HTTPS: dns.HTTPS{Priority: 0, Target: owner}}}
				for k, n := 0, rapid.IntRange(1, 2).Draw(t, "nalias_addr"); k < n; k++ {
					z.A[owner] = append(z.A[owner], dnsfx.ZRec{TTL: 60, IP: newIP(o.Server, port, false)})
				}
				o.Alias = true
				cl = append(cl, "alias")
			}
			if kind >= 1 {
				nrec := rapid.IntRange(1, 3).Draw(t, "nrec")
				// distinct priorities, sometimes far apart in the 16-bit range
				prios := rapid.Permutation([][]int{{1, 2, 3}, {1, 2, 3}, {1, 40000, 65535}, {2, 32768, 32770}, {1, 32769, 3}}[rapid.IntRange(0, 4).Draw(t, "prio_set")]).Draw(t, "prios")
				for k := 0; k < nrec; k++ {
					h := dns.HTTPS{Priority: uint16(prios[k])}
					h.ALPN = [][]string{nil, {"h2"}, {"h3"}, {"h3", "h2"}, {"http/1.1"}, {"other"}, {"h2", "http/1.1"}, {"h3", "other"}, {"h3-29", "h2"}, {"h3-29"}, {"h2c", "h3x"}, {"H3", "h2"}}[rapid.IntRange(0, 11).Draw(t, "alpn")]
					h.NoDefaultALPN = len(h.ALPN) > 0 && rapid.IntRange(0, 2).Draw(t, "nda") == 0
					if rapid.IntRange(0, 3).Draw(t, "pport") == 0 {
						h.Port = uint16(rapid.SampledFrom([]int{7443, 6443}).Draw(t, "pportv"))
					}
					if rapid.IntRange(0, 2).Draw(t, "ech") == 0 {
						h.ECH = echList
					}
					if rapid.IntRange(0, 2).Draw(t, "target") == 0 {
						h.Target = fmt.Sprintf("t%d-%s", k, o.Host)
						z.A[h.Target] = append(z.A[h.Target], dnsfx.ZRec{TTL: 60, IP: newIP(o.Server, port, false)})
					}
					z.HTTPS[owner] = append(z.HTTPS[owner], dnsfx.ZRec{TTL: 60, HTTPS: h})
					o.HTTPS = append(o.HTTPS, h)
				}
				slices.SortStableFunc(o.HTTPS, func(a, b dns.HTTPS) int { return int(a.Priority) - int(b.Priority) })
			}
			origins = append(origins, o)
		}
		for s, n := range hostsOnServer {
			_ = s
			if n >= 2 {
				cl = append(cl, "same_address_different_hosts")
			}
		}
		withH3 := rapid.Bool().Draw(t, "with_h3")
		h3 := &c19H3{}
		// the transport under test
		tr := ech.NewTransport()
		tr.TLSConfig = &tls.Config{RootCAs: theCA(t).Pool}
		if rapid.Bool().Draw(t, "offer_h2") {
			tr.TLSConfig.NextProtos = []string{"h2", "http/1.1"}
		}
		if withH3 {
			tr.HTTP3Transport = h3
			if rapid.Bool().Draw(t, "tls_config_lists_h3") {
				// the one tls.Config serves the QUIC dialer too, so an HTTP/3 user lists h3 in it
				tr.TLSConfig.NextProtos = []string{"h3", "h2", "http/1.1"}
				cl = append(cl, "tls_config_lists_h3")
			}
		}
		dialerResolverSet := rapid.Bool().Draw(t, "dialer_resolver_set")
		if dialerResolverSet {
			cl = append(cl, "dialer_resolver_set")
		}
		tr.Dialer.MaxConcurrency = 1
		tr.Dialer.ConcurrencyDelay = time.Millisecond
		tr.Dialer.Timeout = 5 * time.Second
		type dialRec struct {
			Addr  string
			SNI   string
			ECH   bool
			Local string
			Err   string
			Late  bool // begun under an already cancelled context (after the outcome was decided)
		}
		var dmu sync.Mutex
		var dials []dialRec
		tr.Dialer.DialFunc = func(ctx context.Context, network, addr string, tc *tls.Config) (*tls.Conn, error) {
			dr := dialRec{Addr: addr, SNI: tc.ServerName, ECH: tc.EncryptedClientHelloConfigList != nil, Late: ctx.Err() != nil}
			defer func() { dmu.Lock(); dials = append(dials, dr); dmu.Unlock() }()
			if down[addr] {
				dr.Err = "down"
				return nil, errors.New("target down")
			}
			dmu.Lock()
			srv, ok := fake[addr]
			dmu.Unlock()
			if !ok {
				dr.Err = "unknown address"
				return nil, fmt.Errorf("no such address %s", addr)
			}
			c, err := (&tls.Dialer{Config: tc}).DialContext(ctx, "tcp", S.addrs[srv])
			if err != nil {
				dr.Err = err.Error()
				return nil, err
			}
			dr.Local = c.LocalAddr().String()
			return c.(*tls.Conn), nil
		}
		// requests
		nreq := rapid.IntRange(3, 10).Draw(t, "nreq")
		S.mu.Lock()
		S.hits = nil
		S.mu.Unlock()
		var results []string
		withZoneServer(z, nil, func(dohURL string, srv *dnsfx.Server) {
			r, err := ech.NewResolver(dohURL)
			if err != nil {
				t.Fatalf("harness: %v", err)
			}
			tr.Resolver = r
			if dialerResolverSet {
				// documented: "When Dialer is used by Transport, this value is ignored"
				tr.Dialer.Resolver = r
			}
			rtc := &rtCheck{inner: tr}
			client := &http.Client{Transport: rtc, Timeout: 20 * time.Second}
			defer tr.HTTPTransport.CloseIdleConnections()
			connSeen := map[int64]string{} // server-side connection id -> origin key it first served
			for i := 0; i < nreq; i++ {
				oi := rapid.IntRange(0, len(origins)-1).Draw(t, "origin")
				o := origins[oi]
				want := dnsfx.RefResolve(z, o.url())
				// register fake addresses with their effective ports and draw "down" marks
				res := toResult(want)
				var svc []dns.HTTPS
				for _, h := range want.HTTPS {
					if h.Priority > 0 {
						svc = append(svc, h)
					}
				}
				// reference h3 decision
				useH3 := false
				if withH3 {
					for _, h := range svc {
						if slices.Contains(h.ALPN, "h3") {
							useH3 = true
							break
						}
						if usableTCP(h) {
							break
						}
					}
				}
				hasH3Rec := slices.ContainsFunc(svc, func(h dns.HTTPS) bool { return slices.Contains(h.ALPN, "h3") })
				// reference filter
				filtered := res
				filtered.HTTPS = nil
				for _, h := range res.HTTPS {
					if h.Priority == 0 {
						continue
					}
					if useH3 && slices.Contains(h.ALPN, "h3") || !useH3 && usableTCP(h) {
						filtered.HTTPS = append(filtered.HTTPS, h)
					}
				}
				network := "tcp"
				if useH3 {
					network = "udp"
				}
				var expTargets []string
				for _, tg := range dnsfx.RefTargets(filtered, network) {
					expTargets = append(expTargets, tg.Addr.String())
				}
				dmu.Lock()
				for _, a := range expTargets {
					if _, ok := fake[a]; !ok {
						fake[a] = o.Server
					}
				}
				dmu.Unlock()
				if !useH3 && len(expTargets) > 1 && rapid.IntRange(0, 2).Draw(t, "mark_down") == 0 {
					down[expTargets[0]] = true
					cl = append(cl, "target_down")
				} else if !useH3 && len(expTargets) >= 1 && rapid.IntRange(0, 5).Draw(t, "mark_all_down") == 0 {
					// every compatible target is down: the request fails after exactly those
					// targets were tried - no other record's target gets a TCP connection attempt
					for _, a := range expTargets {
						down[a] = true
					}
					cl = append(cl, "all_targets_down")
				}
				reqID := fmt.Sprintf("req%d", i)
				req, _ := http.NewRequest("GET", o.url(), nil)
				req.Header.Set("X-Req-Id", reqID)
				wantHost := o.authority()
				switch rapid.IntRange(0, 3).Draw(t, "req_host") {
				case 0:
					req.Host = "" // valid: the URL's authority is then the Host header
				case 1:
					// caller overrides the Host header: it must be sent as is, but the
					// server is still authenticated against (and pooled by) the URL's host
					req.Host = "override.c19.example"
					wantHost = req.Host
					cl = append(cl, "host_override")
				}
				dmu.Lock()
				dialStart := len(dials)
				dmu.Unlock()
				var resp *http.Response
				rerr := guard(func() error { var e error; resp, e = client.Do(req); return e })
				rp := map[string]any{"origins": fmt.Sprintf("%+v", origins), "zone": z.Describe(), "request": o.url(), "req_index": i, "with_h3": withH3, "results": results, "down": fmt.Sprint(down)}
				if isPanic(rerr) {
					ev.Violation(t, "C19", rp, "RoundTrip panicked: %v", rerr)
				}
				if rtc.mutated != "" {
					ev.Violation(t, "C19", rp, "RoundTrip modified the request it was given (%s)", rtc.mutated)
				}
				time.Sleep(2 * time.Millisecond) // let attempts that were released by the outcome get logged
				dmu.Lock()
				var myDials []dialRec
				for _, d := range dials[dialStart:] {
					// attempts begun once an outcome was decided (this or an earlier request's)
					// run under a cancelled context: not part of this request's sequence
					if !d.Late && !strings.Contains(d.Err, "canceled") {
						myDials = append(myDials, d)
					}
				}
				dmu.Unlock()
				rp["dials"] = fmt.Sprintf("%+v", myDials)
				S.mu.Lock()
				var hit *c19Hit
				for k := range S.hits {
					if S.hits[k].ReqID == reqID {
						h := S.hits[k]
						hit = &h
					}
				}
				S.mu.Unlock()
				if hit != nil && !hit.TLS {
					ev.Violation(t, "C19", rp, "request %s reached a server in plaintext", o.url())
				}
				literal := strings.Contains(o.Host, ":")
				expectFail := o.Scheme == "http" && len(want.HTTPS) == 0
				allDown := true
				for _, a := range expTargets {
					if !down[a] {
						allDown = false
					}
				}
				h3.mu.Lock()
				var h3call *c19H3Call
				for k := range h3.calls {
					if h3.calls[k].ReqID == reqID {
						c := h3.calls[k]
						h3call = &c
					}
				}
				h3.mu.Unlock()
				switch {
				case useH3:
					cl = append(cl, "h3_chosen")
					if h3call == nil {
						ev.Violation(t, "C19", rp, "the most preferred usable HTTPS record offers h3 but the HTTP/3 round-tripper was not used (err=%v)", rerr)
					}
					if hit != nil || len(myDials) > 0 {
						ev.Violation(t, "C19", rp, "HTTP/3 was chosen but a TCP connection was also attempted")
					}
					if fmt.Sprint(h3call.Targets) != fmt.Sprint(expTargets) {
						ev.Violation(t, "C19", rp, "HTTP/3: targets offered %v, the h3-capable records give %v", h3call.Targets, expTargets)
					}
					for _, sni := range h3call.SNI {
						if sni != o.Host {
							ev.Violation(t, "C19", rp, "HTTP/3 dial with ServerName %q for host %q", sni, o.Host)
						}
					}
					if rtc.mismatch {
						ev.Violation(t, "C19", rp, "resp.Request is not the request the Transport was given")
					}
					if h3call.Host != wantHost {
						ev.Violation(t, "C19", rp, "HTTP/3 request carries Host %q, want %q (URL authority %q)", h3call.Host, wantHost, o.authority())
					}
					results = append(results, reqID+":h3")
				case h3call != nil:
					ev.Violation(t, "C19", rp, "HTTP/3 round-tripper used although the most preferred usable record does not offer h3 (records %+v)", svc)
				case expectFail:
					cl = append(cl, "plaintext_refused")
					if rerr == nil {
						ev.Violation(t, "C19", rp, "plaintext http request to an origin without HTTPS records succeeded")
					}
					if hit != nil {
						ev.Violation(t, "C19", rp, "plaintext http request reached a server")
					}
					results = append(results, reqID+":refused")
				case len(expTargets) == 0 || allDown:
					key := o.originKey()
					if rerr == nil {
						// fine if it went out on a pooled connection that this very origin
						// established before its target was marked down
						if hit == nil || connSeen[hit.ConnID] != key {
							ev.Violation(t, "C19", rp, "request succeeded although no compatible target is reachable (expected targets %v)", expTargets)
						}
						io.Copy(io.Discard, resp.Body)
						resp.Body.Close()
						cl = append(cl, "conn_reused")
						results = append(results, reqID+":ok-pooled")
					} else {
						var gotSeq []string
						for _, d := range myDials {
							if !d.Late && !strings.Contains(d.Err, "canceled") {
								gotSeq = append(gotSeq, d.Addr)
							}
						}
						if fmt.Sprint(gotSeq) != fmt.Sprint(expTargets) {
							ev.Violation(t, "C19", rp, "every compatible target is down: targets dialed %v, the records compatible with h2/http1.1 give %v", gotSeq, expTargets)
						}
						results = append(results, reqID+":unreachable")
					}
				default:
					if withH3 && hasH3Rec {
						cl = append(cl, "h3_not_chosen_with_h3_record")
					}
					if rerr != nil {
						ev.Violation(t, "C19", rp, "request failed: %v (expected targets %v)", rerr, expTargets)
					}
					io.Copy(io.Discard, resp.Body)
					resp.Body.Close()
					if rtc.mismatch {
						ev.Violation(t, "C19", rp, "resp.Request is not the request the Transport was given")
					}
					if hit == nil {
						ev.Violation(t, "C19", rp, "no server saw the request although it succeeded")
					}
					if o.Scheme == "http" {
						cl = append(cl, "http_upgrade")
					}
					if hit.Host != wantHost {
						ev.Violation(t, "C19", rp, "server saw Host %q, want %q (URL authority %q)", hit.Host, wantHost, o.authority())
					}
					if !literal && hit.SNI != o.Host {
						ev.Violation(t, "C19", rp, "server saw SNI %q for URL host %q", hit.SNI, o.Host)
					}
					if hit.Server != o.Server {
						ev.Violation(t, "C19", rp, "request for %s reached server %d, its addresses belong to server %d", o.url(), hit.Server, o.Server)
					}
					// connection identity
					key := o.originKey()
					if prev, ok := connSeen[hit.ConnID]; ok {
						cl = append(cl, "conn_reused")
						if prev != key {
							ev.Violation(t, "C19", rp, "request for %s was sent on a pooled connection that was dialed for %s", key, prev)
						}
					} else {
						connSeen[hit.ConnID] = key
						// the dial that produced this connection
						var dr *dialRec
						for k := range myDials {
							if myDials[k].Local == hit.RemoteAddr {
								dr = &myDials[k]
							}
						}
						if dr == nil {
							ev.Violation(t, "C19", rp, "request arrived on a connection (%s) that was not dialed for it", hit.RemoteAddr)
						}
						wantSNI := o.Host
						if literal {
							wantSNI = "[" + o.Host + "]"
							if o.Port > 0 {
								wantSNI = o.Host
							}
						}
						if dr.SNI != wantSNI && dr.SNI != o.Host {
							ev.Violation(t, "C19", rp, "connection dialed with ServerName %q for URL host %q", dr.SNI, o.Host)
						}
						// attempts in order = expected targets up to the first that is up
						var wantSeq []string
						for _, a := range expTargets {
							wantSeq = append(wantSeq, a)
							if !down[a] {
								break
							}
						}
						var gotSeq []string
						succeeded := false
						for _, d := range myDials {
							if succeeded {
								break // attempts released after the winning connection are not part of the sequence
							}
							succeeded = d.Err == ""
							// attempts begun once the outcome was decided run under a cancelled
							// (or about to be cancelled) context: not part of the sequence
							if !d.Late && !strings.Contains(d.Err, "canceled") {
								gotSeq = append(gotSeq, d.Addr)
							}
						}
						if fmt.Sprint(gotSeq) != fmt.Sprint(wantSeq) {
							ev.Violation(t, "C19", rp, "targets dialed %v, the records compatible with h2/http1.1 give %v", gotSeq, wantSeq)
						}
					}
					results = append(results, reqID+":ok")
				}
			}
		})
		nontrivial := false
		for _, n := range hostsOnServer {
			nontrivial = nontrivial || n >= 2
		}
		for _, o := range origins {
			for _, h := range o.HTTPS {
				nontrivial = nontrivial || slices.Contains(h.ALPN, "h3")
			}
		}
		rec.Case(fmt.Sprintf("%+v|%v|%v", origins, withH3, results), nontrivial, cl, func() any {
			return map[string]any{"origins": fmt.Sprintf("%+v", origins), "with_h3": withH3, "results": results}
		})
		_ = url.Parse
	})
}
