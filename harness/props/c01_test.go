package props

import (
	"bytes"
	"context"
	"crypto/tls"
	"errors"
	"fmt"
	"io"
	"net"
	"slices"
	"strings"
	"sync"
	"testing"
	"time"

	"github.com/c2FmZQ/ech"
	"pgregory.net/rapid"

	"verif/harness/ev"
	"verif/harness/hello"
	"verif/harness/tlsfx"
	"verif/harness/wire"
)

// chunkConn splits every Write into pieces of at most n bytes.
type chunkConn struct {
	net.Conn
	n int
}

func (c *chunkConn) Write(p []byte) (int, error) {
	if c.n <= 0 {
		return c.Conn.Write(p)
	}
	total := 0
	for len(p) > 0 {
		k := min(c.n, len(p))
		m, err := c.Conn.Write(p[:k])
		total += m
		if err != nil {
			return total, err
		}
		p = p[k:]
	}
	return total, nil
}

type c01Deployment struct {
	Keys            []ech.Key // client-facing server keys
	BackendCfg      *tls.Config
	PublicCfg       *tls.Config // public-name server (holds the real keys)
	RouterSortsALPN bool        // the front server edits the slice ALPNProtos() returned
	KeySplit        int         // >0: Keys[:KeySplit] and Keys[KeySplit:] go into two WithKeys options
	PublicName      string
	mu              sync.Mutex
	FrontConns      []*ech.Conn
	FrontErrs       []error
	FirstToPub      [][]byte // first record forwarded to the public-name server
	BackendSt       []tls.ConnectionState
	BackendErrs     []error
	RelayBuf        int // size of the backend->client relay buffer (0: 32 KiB)
	SlowWriteReturn bool
	Interloper      []byte // first record of another client's connection accepted in between
}

// serve handles one client connection the way a split-mode front does.
func (d *c01Deployment) serve(front net.Conn, done chan<- struct{}) {
	defer close(done)
	ctx, cancel := context.WithTimeout(context.Background(), 20*time.Second)
	defer cancel()
	opts := []ech.Option{ech.WithKeys(d.Keys)}
	if d.KeySplit > 0 && d.KeySplit < len(d.Keys) {
		// current keys and the previous rotation's keys arrive as separate options (WithKeys appends)
		opts = []ech.Option{ech.WithKeys(d.Keys[:d.KeySplit:d.KeySplit]), ech.WithKeys(d.Keys[d.KeySplit:])}
	}
	c, err := ech.NewConn(ctx, front, opts...)
	d.mu.Lock()
	d.FrontConns = append(d.FrontConns, c)
	d.FrontErrs = append(d.FrontErrs, err)
	d.mu.Unlock()
	if err != nil {
		front.Close()
		return
	}
	if d.RouterSortsALPN {
		// the router derives a key from what the accessors return: the slices are its own
		p := c.ALPNProtos()
		slices.Sort(p)
		for i := range p {
			p[i] = strings.ToUpper(p[i])
		}
	}
	if d.Interloper != nil {
		// another client reaches the server before this connection's backend has read a byte
		guard(func() error {
			ech.NewConn(ctx, wire.New(d.Interloper, io.EOF), ech.WithKeys(d.Keys))
			return nil
		})
	}
	b1, b2 := wire.Pipe()
	dl := time.Now().Add(20 * time.Second)
	b1.SetDeadline(dl)
	b2.SetDeadline(dl)
	var srv *tls.Conn
	toPublic := !c.ECHAccepted()
	if toPublic {
		srv = tls.Server(b2, d.PublicCfg)
	} else {
		srv = tls.Server(b2, d.BackendCfg)
	}
	var wg sync.WaitGroup
	wg.Add(3)
	go func() { // backend application: echo
		defer wg.Done()
		defer srv.Close()
		if err := srv.Handshake(); err != nil {
			d.mu.Lock()
			d.BackendErrs = append(d.BackendErrs, err)
			d.mu.Unlock()
			return
		}
		d.mu.Lock()
		d.BackendSt = append(d.BackendSt, srv.ConnectionState())
		d.mu.Unlock()
		// request: 4-byte length + payload; response: "echo:" + payload
		hdr := make([]byte, 4)
		if _, err := io.ReadFull(srv, hdr); err != nil {
			return
		}
		n := int(hdr[0])<<24 | int(hdr[1])<<16 | int(hdr[2])<<8 | int(hdr[3])
		buf := make([]byte, n)
		if _, err := io.ReadFull(srv, buf); err != nil {
			return
		}
		srv.Write(append([]byte("echo:"), buf...))
		// wait for the client to close
		io.Copy(io.Discard, srv)
	}()
	go func() { // client -> backend
		defer wg.Done()
		first := true
		buf := make([]byte, 1<<15)
		for {
			n, err := c.Read(buf)
			if n > 0 {
				if first && toPublic {
					// capture the first record forwarded to the public-name server
					d.mu.Lock()
					d.FirstToPub = append(d.FirstToPub, append([]byte{}, buf[:n]...))
					d.mu.Unlock()
				}
				first = false
				if _, werr := b1.Write(buf[:n]); werr != nil {
					break
				}
			}
			if err != nil {
				break
			}
		}
		b1.Close()
	}()
	go func() { // backend -> client
		defer wg.Done()
		// one buffer reused for every read, of a size that may split the backend's records
		// across Write calls, as a relay in front of a remote backend does
		buf := make([]byte, max(d.RelayBuf, 1))
		if d.RelayBuf == 0 {
			buf = make([]byte, 1<<15)
		}
		for {
			n, err := b1.Read(buf)
			if n > 0 {
				if _, werr := c.Write(buf[:n]); werr != nil {
					break
				}
			}
			if err != nil {
				break
			}
		}
		front.Close()
	}()
	wg.Wait()
}

var c01Curves = []tls.CurveID{tls.X25519, tls.CurveP256, tls.CurveP384, tls.X25519MLKEM768}

func drawCurves(t *rapid.T, label string) []tls.CurveID {
	perm := rapid.Permutation(c01Curves).Draw(t, label)
	return perm[:rapid.IntRange(1, len(perm)).Draw(t, label+"_n")]
}

type c01Result struct {
	Err        error
	State      tls.ConnectionState
	Echo       []byte
	FirstWrite []byte
}

// connect runs one client connection through the deployment.
func (d *c01Deployment) connect(cfg *tls.Config, chunk int, payload []byte) c01Result {
	cp, sp := wire.Pipe()
	dl := time.Now().Add(20 * time.Second)
	cp.SetDeadline(dl)
	sp.SetDeadline(dl)
	if d.SlowWriteReturn {
		// bytes written towards the client are on the wire (and may be answered) a moment
		// before the Write call returns to the relay
		sp.OnWrite = func(int) { time.Sleep(300 * time.Microsecond) }
	}
	done := make(chan struct{})
	go d.serve(sp, done)
	rec := &tlsfx.Recorder{Conn: &chunkConn{Conn: cp, n: chunk}}
	cli := tls.Client(rec, cfg)
	var res c01Result
	res.Err = cli.Handshake()
	res.State = cli.ConnectionState()
	if res.Err == nil {
		if _, err := cli.Write(append([]byte{byte(len(payload) >> 24), byte(len(payload) >> 16), byte(len(payload) >> 8), byte(len(payload))}, payload...)); err != nil {
			res.Err = fmt.Errorf("client write: %w", err)
		} else {
			want := len(payload) + 5
			buf := make([]byte, 0, want)
			tmp := make([]byte, 1<<15)
			for len(buf) < want {
				n, err := cli.Read(tmp)
				buf = append(buf, tmp[:n]...)
				if err != nil {
					res.Err = fmt.Errorf("client read after %d of %d bytes: %w", len(buf), want, err)
					break
				}
			}
			res.Echo = buf
			res.State = cli.ConnectionState()
		}
	}
	cli.Close()
	cp.Close()
	<-done
	w, _ := rec.Snapshot()
	if len(w) >= 5 {
		l := int(w[3])<<8 | int(w[4])
		if len(w) >= 5+l {
			res.FirstWrite = w[:5+l]
		}
	}
	return res
}

func TestC01(t *testing.T) {
	rec := ev.Get("C01")
	rec.Rule("full deployments with the real crypto/tls stack on both ends: client tls.Config (server name 1..253 bytes, 0..4 ALPN protocols, curve preference lists over {X25519, P-256, P-384, X25519MLKEM768} - hence key_share sizes and real HelloRetryRequests -, cold or warm session cache, optional client certificate with a 0.5..40 KB chain), backend tls.Config without ECH keys (curves, ALPN, client auth, certificate chain 0.5..40 KB, session tickets), client-facing key set of 1..3 keys, the three AEAD suites, fresh or stale client config, client writes chunked 1..4096 bytes or whole, backend output relayed to the Conn through a reused buffer of 1..4096 bytes or 32 KiB. Oracle: the two crypto/tls endpoints - fresh: handshake completes, client ECHAccepted, echo both ways, backend ServerName/ALPN and Conn.ServerName/ALPNProtos equal the client's inner values; stale: hello reaches the public-name server untouched (that server has drawn curve preferences too, so the rejection handshake may itself go through a HelloRetryRequest), client gets ECHRejectionError with the server's retry configs and a second connection with them is accepted. distinct = configuration tuple; non-trivial = anything but X25519 / no ALPN / cold / single key")
	rec.Mandatory("config_id_collision", "hrr", "resumed", "pq_share", "name_ge200", "server_chain_ge16k", "client_chain_ge16k", "aead1", "aead2", "aead3", "stale", "stale_hrr", "chunked", "client_auth", "backend_records_split_by_relay", "other_connection_accepted_in_between")
	rapid.Check(t, func(t *rapid.T) {
		var cl []string
		serverName := hello.TwoLabels(hello.GenName(t, "server_name", 253))
		wantSNI := serverName
		if rapid.IntRange(0, 11).Draw(t, "backend_addressed_by_ip") == 0 {
			// the client addresses the backend by IP literal (certificate with an IP SAN): RFC 6066
			// keeps literals out of SNI, so the inner hello has no server_name at all
			serverName, wantSNI = "192.0.2.77", ""
		}
		publicName := hello.MixCase(t, "public_name", hello.TwoLabels(hello.GenName(t, "public_name", 200)))
		if strings.EqualFold(publicName, serverName) {
			publicName = "p." + publicName[:min(len(publicName), 190)]
		}
		// keys of the client-facing server
		nk := rapid.IntRange(1, 3).Draw(t, "nkeys")
		target := rapid.IntRange(0, nk-1).Draw(t, "target_key")
		suites := rapid.Permutation(hello.AllSuites).Draw(t, "suites")
		var keys []*hello.Key
		for i := 0; i < nk; i++ {
			k := drawKey(t, fmt.Sprintf("k%d", i), 10+i, publicName)
			k, _ = hello.NewKey(k.Priv.Bytes(), uint8(10+i), publicName, suites)
			keys = append(keys, k)
		}
		if rapid.IntRange(0, 3).Draw(t, "id_collision") == 0 {
			// key rotation with a colliding one-byte id: another key, same id as the
			// target's, registered under another public name, somewhere in the list
			ck := drawKey(t, "collide", 10+target, "other-"+publicName[:min(len(publicName), 180)])
			ck, _ = hello.NewKey(ck.Priv.Bytes(), uint8(10+target), "other-"+publicName[:min(len(publicName), 180)], suites)
			pos := rapid.IntRange(0, len(keys)).Draw(t, "collide_pos")
			keys = append(keys[:pos], append([]*hello.Key{ck}, keys[pos:]...)...)
			if pos <= target {
				target++
			}
			cl = append(cl, "config_id_collision")
		}
		cl = append(cl, fmt.Sprintf("aead%d", suites[0].AEAD))
		stale := rapid.IntRange(0, 4).Draw(t, "stale") == 0
		clientKey := keys[target]
		if stale {
			old := drawKey(t, "oldkey", 99, publicName)
			clientKey, _ = hello.NewKey(old.Priv.Bytes(), 99, publicName, suites)
			if rapid.IntRange(0, 2).Draw(t, "stale_same_id_other_suite") == 0 {
				// the operator re-issued the SAME config id with a new key and another cipher
				// suite; the client still holds the old config (old key, old suite) under that id
				tk := keys[target]
				tk2, _ := hello.NewKey(tk.Priv.Bytes(), tk.ID, tk.PublicName, suites[1:2])
				*tk = *tk2
				clientKey, _ = hello.NewKey(old.Priv.Bytes(), tk.ID, publicName, suites[:1])
				cl = append(cl, "stale_same_id_other_suite")
			}
			cl = append(cl, "stale")
		}
		// maximum_name_length is the operator's choice (0 = no hint, a site-wide constant, ...):
		// the configs are whatever bytes were published, not what this library would write
		if mc := rapid.IntRange(0, 3).Draw(t, "max_name_length_class"); mc > 0 {
			for _, k := range append(append([]*hello.Key{}, keys...), clientKey) {
				mnl := []int{0, 0, 64, 255}[mc]
				if mc == 1 {
					mnl = rapid.IntRange(0, 255).Draw(t, "max_name_length")
				}
				k.Config = hello.ConfigBytes(k.ID, 0x0020, k.Priv.PublicKey().Bytes(), k.Suites, uint8(mnl), []byte(k.PublicName))
			}
			cl = append(cl, "operator_chosen_max_name_length")
		}
		clientList, _ := ech.ConfigList([]ech.Config{clientKey.Config})
		// backend
		serverPad := []int{0, 0, 3000, 17000, 39000}[rapid.IntRange(0, 4).Draw(t, "server_pad")]
		backend := &tls.Config{
			Certificates:     []tls.Certificate{leafFor(t, serverPad, false, serverName)},
			CurvePreferences: drawCurves(t, "backend_curves"),
			MinVersion:       tls.VersionTLS13,
		}
		if serverPad >= 16000 {
			cl = append(cl, "server_chain_ge16k")
		}
		clientProtos := hello.GenALPN(t, "client_alpn")
		for i, p := range clientProtos { // crypto/tls requires valid protocol strings
			if strings.ContainsAny(p, "\x00") || len(p) > 255 || len(p) == 0 {
				clientProtos[i] = "proto"
			}
		}
		clientProtos = slices.Compact(slices.Clone(clientProtos))
		switch rapid.IntRange(0, 2).Draw(t, "backend_alpn") {
		case 1:
			if len(clientProtos) > 0 {
				backend.NextProtos = append([]string{"zz-unknown"}, clientProtos[len(clientProtos)-1])
			}
		case 2:
			backend.NextProtos = slices.Clone(clientProtos)
			slices.Reverse(backend.NextProtos)
		}
		wantProto := ""
		for _, s := range backend.NextProtos {
			if slices.Contains(clientProtos, s) {
				wantProto = s
				break
			}
		}
		clientAuth := rapid.IntRange(0, 2).Draw(t, "client_auth") == 0
		clientPad := 0
		if clientAuth {
			backend.ClientAuth = tls.RequireAnyClientCert
			clientPad = []int{0, 3000, 17000, 39000}[rapid.IntRange(0, 3).Draw(t, "client_pad")]
			cl = append(cl, "client_auth")
			if clientPad >= 16000 {
				cl = append(cl, "client_chain_ge16k")
			}
		}
		d := &c01Deployment{Keys: echKeys(keys...), BackendCfg: backend, PublicName: publicName}
		d.RouterSortsALPN = rapid.Bool().Draw(t, "router_edits_alpn_slice")
		if len(d.Keys) >= 2 && rapid.Bool().Draw(t, "keys_in_two_options") {
			d.KeySplit = rapid.IntRange(1, len(d.Keys)-1).Draw(t, "key_split")
			cl = append(cl, "keys_in_two_options")
		}
		if rapid.IntRange(0, 2).Draw(t, "interloper") == 0 {
			d.Interloper = hello.Record(22, 0x0303, hello.GenPlain(t, "interloper_hello", hello.PlainOpts{}).Message())
			cl = append(cl, "other_connection_accepted_in_between")
		}
		if rapid.IntRange(0, 2).Draw(t, "small_relay_buffer") == 0 {
			d.RelayBuf = []int{1, 3, 7, 100, 517, 1500, 4096}[rapid.IntRange(0, 6).Draw(t, "relay_buf")]
			cl = append(cl, "backend_records_split_by_relay")
		} else if rapid.Bool().Draw(t, "slow_write_return") {
			d.SlowWriteReturn = true
		}
		var tlsKeys []tls.EncryptedClientHelloKey
		for _, k := range keys {
			tlsKeys = append(tlsKeys, tls.EncryptedClientHelloKey{Config: k.Config, PrivateKey: k.Priv.Bytes(), SendAsRetry: true})
		}
		d.PublicCfg = &tls.Config{Certificates: []tls.Certificate{leafFor(t, 0, false, publicName)}, EncryptedClientHelloKeys: tlsKeys, MinVersion: tls.VersionTLS13}
		if stale {
			// the public-name server has curve preferences of its own, so that it may
			// answer the (untouched) outer hello with a HelloRetryRequest
			d.PublicCfg.CurvePreferences = drawCurves(t, "public_curves")
		}
		clientCurves := drawCurves(t, "client_curves")
		// make sure the two sides share a group
		if !slices.ContainsFunc(clientCurves, func(c tls.CurveID) bool { return slices.Contains(backend.CurvePreferences, c) }) {
			clientCurves = append(clientCurves, backend.CurvePreferences[0])
		}
		if stale && !slices.ContainsFunc(clientCurves, func(c tls.CurveID) bool { return slices.Contains(d.PublicCfg.CurvePreferences, c) }) {
			clientCurves = append(clientCurves, d.PublicCfg.CurvePreferences[0])
		}
		warm := rapid.IntRange(0, 2).Draw(t, "warm_cache") == 0
		clientCfg := &tls.Config{
			ServerName: serverName, RootCAs: theCA(t).Pool, NextProtos: clientProtos, CurvePreferences: clientCurves,
			EncryptedClientHelloConfigList: clientList, MinVersion: tls.VersionTLS13,
		}
		if warm {
			clientCfg.ClientSessionCache = tls.NewLRUClientSessionCache(8)
		}
		if clientAuth {
			clientCfg.Certificates = []tls.Certificate{leafFor(t, clientPad, true, "client.example")}
		}
		chunk := 0
		if rapid.Bool().Draw(t, "chunked") {
			chunk = []int{1, 2, 7, 100, 1500, 4096}[rapid.IntRange(0, 5).Draw(t, "chunk")]
			cl = append(cl, "chunked")
		}
		payload := hello.GenBytes(t, "payload", rapid.IntRange(1, 40000).Draw(t, "payload_len"))
		desc := map[string]any{"server_name": serverName, "public_name": publicName, "keys": nk, "target_key": target, "suites": suites, "stale": stale,
			"client_curves": fmt.Sprint(clientCurves), "backend_curves": fmt.Sprint(backend.CurvePreferences), "client_alpn": clientProtos, "backend_alpn": backend.NextProtos,
			"server_chain": tlsfx.ChainSize(backend.Certificates[0]), "client_auth": clientAuth, "client_pad": clientPad, "warm": warm, "chunk": chunk, "payload": len(payload)}
		if len(serverName) >= 200 {
			cl = append(cl, "name_ge200")
		}
		if slices.Contains(clientCurves[:1], tls.X25519MLKEM768) {
			cl = append(cl, "pq_share")
		}
		rounds := 1
		if warm {
			rounds = 2
		}
		for round := 0; round < rounds; round++ {
			res := d.connect(clientCfg, chunk, payload)
			desc["round"] = round
			if stale {
				var rej *tls.ECHRejectionError
				if !errors.As(res.Err, &rej) {
					ev.Violation(t, "C01", desc, "stale config: the client did not get an authenticated ECH rejection from the public-name server: %v (front errors %v, backend errors %v)", res.Err, d.FrontErrs, d.BackendErrs)
				}
				if len(d.FrontConns) == 0 || d.FrontConns[0] == nil || d.FrontConns[0].ECHAccepted() || d.FrontConns[0].ServerName() != publicName {
					ev.Violation(t, "C01", desc, "stale config: the Conn did not route on the outer hello (public name)")
				}
				if len(d.FirstToPub) == 0 || len(res.FirstWrite) < 5 || len(d.FirstToPub[0]) < len(res.FirstWrite) || !sameRecord(d.FirstToPub[0][:len(res.FirstWrite)], res.FirstWrite) {
					ev.Violation(t, "C01", desc, "stale config: the hello did not reach the public-name server untouched")
				}
				wantRetry, _ := ech.ConfigList(func() []ech.Config {
					var l []ech.Config
					for _, k := range keys {
						l = append(l, k.Config)
					}
					return l
				}())
				if res.State.HelloRetryRequest {
					cl = append(cl, "stale_hrr")
				}
				if !bytes.Equal(rej.RetryConfigList, wantRetry) {
					ev.Violation(t, "C01", desc, "stale config: retry config list differs from the server's")
				}
				// second connection with the retry configs
				cfg2 := clientCfg.Clone()
				cfg2.EncryptedClientHelloConfigList = rej.RetryConfigList
				res2 := d.connect(cfg2, chunk, payload)
				if res2.Err != nil || !res2.State.ECHAccepted {
					ev.Violation(t, "C01", desc, "connection with the retry configs failed: %v accepted=%v", res2.Err, res2.State.ECHAccepted)
				}
				break
			}
			if res.Err != nil && len(res.FirstWrite) > 9 && res.FirstWrite[0] == 22 && res.FirstWrite[5] == 1 {
				hl := int(res.FirstWrite[6])<<16 | int(res.FirstWrite[7])<<8 | int(res.FirstWrite[8])
				if hl+4 > len(res.FirstWrite)-5 {
					if kf, ok := ev.Known("C01", "clienthello-spans-several-records"); ok {
						rec.KnownHit("clienthello-spans-several-records", kf)
						break
					}
					ev.Violation(t, "C01", desc, "round %d: the client's ClientHello (%d bytes) spans several records and the handshake failed: %v (front errors %v)", round, hl+4, res.Err, d.FrontErrs)
				}
			}
			if res.Err != nil {
				ev.Violation(t, "C01", desc, "round %d: handshake or data exchange failed: %v (front errors %v, backend errors %v)", round, res.Err, d.FrontErrs, d.BackendErrs)
			}
			if !res.State.ECHAccepted {
				ev.Violation(t, "C01", desc, "round %d: the client does not observe ECH acceptance", round)
			}
			if !bytes.Equal(res.Echo, append([]byte("echo:"), payload...)) {
				ev.Violation(t, "C01", desc, "round %d: application data was not echoed intact (%d bytes back for %d sent)", round, len(res.Echo), len(payload))
			}
			d.mu.Lock()
			fc := d.FrontConns[len(d.FrontConns)-1]
			var bs tls.ConnectionState
			if len(d.BackendSt) > 0 {
				bs = d.BackendSt[len(d.BackendSt)-1]
			}
			d.mu.Unlock()
			if !fc.ECHAccepted() || fc.ServerName() != wantSNI || !slices.Equal(fc.ALPNProtos(), clientProtos) && !(len(fc.ALPNProtos()) == 0 && len(clientProtos) == 0) {
				ev.Violation(t, "C01", desc, "round %d: Conn reports accepted=%v ServerName=%q ALPN=%q, client sent %q %q", round, fc.ECHAccepted(), fc.ServerName(), fc.ALPNProtos(), wantSNI, clientProtos)
			}
			if bs.ServerName != wantSNI || bs.NegotiatedProtocol != wantProto || bs.ECHAccepted {
				ev.Violation(t, "C01", desc, "round %d: backend observes ServerName=%q ALPN=%q (ECHAccepted=%v), expected %q %q", round, bs.ServerName, bs.NegotiatedProtocol, bs.ECHAccepted, wantSNI, wantProto)
			}
			if res.State.NegotiatedProtocol != wantProto {
				ev.Violation(t, "C01", desc, "round %d: client negotiated %q, expected %q", round, res.State.NegotiatedProtocol, wantProto)
			}
			if res.State.HelloRetryRequest {
				cl = append(cl, "hrr")
			}
			if res.State.DidResume {
				cl = append(cl, "resumed")
				if res.State.HelloRetryRequest {
					cl = append(cl, "hrr_and_resumed")
				}
			} else if round == 1 {
				cl = append(cl, "second_round_not_resumed")
			}
		}
		trivial := len(clientCurves) == 1 && clientCurves[0] == tls.X25519 && len(clientProtos) == 0 && !warm && nk == 1 && !stale
		rec.Case(fmt.Sprintf("%v", desc), !trivial, cl, func() any { return desc })
	})
}

var _ = io.EOF
