package props

import (
	"bytes"
	"crypto/sha256"
	"crypto/tls"
	"fmt"
	"net"
	"sync"
	"testing"
	"time"

	"github.com/c2FmZQ/ech"
	"pgregory.net/rapid"

	"verif/harness/ev"
	"verif/harness/hello"
	"verif/harness/tlsfx"
)

var (
	testCAOnce sync.Once
	testCA     *tlsfx.CA
)

func theCA(t interface{ Fatalf(string, ...any) }) *tlsfx.CA {
	testCAOnce.Do(func() {
		ca, err := tlsfx.NewCA()
		if err != nil {
			t.Fatalf("harness: CA: %v", err)
		}
		testCA = ca
	})
	return testCA
}

var (
	leafMu    sync.Mutex
	leafCache = map[string]tls.Certificate{}
)

func leafFor(t interface{ Fatalf(string, ...any) }, pad int, client bool, names ...string) tls.Certificate {
	key := fmt.Sprintf("%v|%d|%v", names, pad, client)
	leafMu.Lock()
	defer leafMu.Unlock()
	if c, ok := leafCache[key]; ok {
		return c
	}
	c, err := theCA(t).Leaf(names, pad, client)
	if err != nil {
		t.Fatalf("harness: leaf: %v", err)
	}
	if len(leafCache) > 2000 {
		leafCache = map[string]tls.Certificate{}
	}
	leafCache[key] = c
	return c
}

// tlsInterop runs a crypto/tls ECH handshake client<->server with the config
// list; returns (client accepted, server accepted, first client record, error).
func tlsInterop(t interface{ Fatalf(string, ...any) }, list []byte, keys []tls.EncryptedClientHelloKey, innerName string) (bool, bool, []byte, error) {
	cp, sp := net.Pipe()
	rec := &tlsfx.Recorder{Conn: cp}
	cert := leafFor(t, 0, false, innerName)
	srv := tls.Server(sp, &tls.Config{Certificates: []tls.Certificate{cert}, EncryptedClientHelloKeys: keys, MinVersion: tls.VersionTLS13})
	cli := tls.Client(rec, &tls.Config{ServerName: innerName, RootCAs: theCA(t).Pool, EncryptedClientHelloConfigList: list, MinVersion: tls.VersionTLS13})
	dl := time.Now().Add(20 * time.Second)
	cp.SetDeadline(dl)
	sp.SetDeadline(dl)
	var serr error
	done := make(chan struct{})
	go func() { serr = srv.Handshake(); close(done) }()
	cerr := cli.Handshake()
	if cerr != nil {
		cp.Close()
	}
	<-done
	cp.Close()
	sp.Close()
	w, _ := rec.Snapshot()
	var first []byte
	if len(w) >= 5 {
		l := int(w[3])<<8 | int(w[4])
		if len(w) >= 5+l {
			first = w[:5+l]
		}
	}
	if cerr != nil {
		return false, false, first, fmt.Errorf("client: %w (server: %v)", cerr, serr)
	}
	if serr != nil {
		return false, false, first, fmt.Errorf("server: %w", serr)
	}
	return cli.ConnectionState().ECHAccepted, srv.ConnectionState().ECHAccepted, first, nil
}

func sameSpec(a ech.ConfigSpec, id uint8, kem uint16, pub []byte, suites []hello.Suite, name []byte) string {
	if a.Version != 0xfe0d {
		return fmt.Sprintf("version %#x", a.Version)
	}
	if a.ID != id || a.KEM != kem || !bytes.Equal(a.PublicKey, pub) || !bytes.Equal(a.PublicName, name) {
		return fmt.Sprintf("id/kem/key/name differ: %+v", a)
	}
	if len(a.CipherSuites) != len(suites) {
		return fmt.Sprintf("suite count %d != %d", len(a.CipherSuites), len(suites))
	}
	for i, s := range suites {
		if a.CipherSuites[i].KDF != s.KDF || a.CipherSuites[i].AEAD != s.AEAD {
			return fmt.Sprintf("suite %d differs", i)
		}
	}
	want := len(name) + 16
	if want > 255 {
		want = 255
	}
	if int(a.MaximumNameLength) != want {
		return fmt.Sprintf("maximum_name_length %d != %d", a.MaximumNameLength, want)
	}
	return ""
}

type c11Spec struct {
	ID     uint8
	KEM    uint16
	Pub    []byte
	Suites []hello.Suite
	Name   []byte
	Priv   []byte
}

func drawC11Spec(t *rapid.T, label string, interop bool) c11Spec {
	var s c11Spec
	s.ID = uint8(rapid.IntRange(0, 255).Draw(t, label+"_id"))
	if interop {
		s.KEM = 0x0020
		k := drawKey(t, label+"_key", int(s.ID), "x")
		s.Pub, s.Priv = k.Priv.PublicKey().Bytes(), k.Priv.Bytes()
		perm := rapid.Permutation(hello.AllSuites).Draw(t, label+"_suites")
		s.Suites = perm[:rapid.IntRange(1, 3).Draw(t, label+"_nsuites")]
		if rapid.IntRange(0, 3).Draw(t, label+"_unk") == 0 {
			pos := rapid.IntRange(0, len(s.Suites)).Draw(t, label+"_unkpos")
			s.Suites = append(append(append([]hello.Suite{}, s.Suites[:pos]...), hello.Suite{KDF: 2, AEAD: 0x7777}), s.Suites[pos:]...)
		}
		var n string
		switch rapid.IntRange(0, 5).Draw(t, label+"_nameclass") {
		case 0:
			n = hello.GenLabel(t, label+"_n1", 1) + "." + hello.GenLabel(t, label+"_n2", 1)
		case 1:
			n = hello.NameOfLen(t, label+"_nlong", 239+rapid.IntRange(0, 1).Draw(t, label+"_240"))
		default:
			n = hello.GenName(t, label+"_n", 253)
		}
		s.Name = []byte(hello.TwoLabels(n))
		return s
	}
	s.KEM = uint16(rapid.SampledFrom([]int{0x0020, 0x0010, 0x0011, 0x0021, 0xffff, 0}).Draw(t, label+"_kem"))
	publen := rapid.IntRange(0, 200).Draw(t, label+"_publen")
	if label == "s0" && rapid.IntRange(0, 7).Draw(t, label+"_bigpub") == 0 {
		// the public key has a 16-bit length: post-quantum KEM keys are kilobytes long
		publen = rapid.SampledFrom([]int{255, 256, 1216, 4095, 4096, 4097, 9616, 20000}).Draw(t, label+"_bigpublen")
	}
	s.Pub = hello.GenBytes(t, label+"_pub", publen)
	ns := rapid.IntRange(0, 8).Draw(t, label+"_ns")
	for i := 0; i < ns; i++ {
		s.Suites = append(s.Suites, hello.Suite{KDF: uint16(rapid.IntRange(0, 4).Draw(t, label+"_kdf")), AEAD: uint16(rapid.IntRange(0, 0xffff).Draw(t, label+"_aead"))})
	}
	var nl int
	switch rapid.IntRange(0, 6).Draw(t, label+"_nlc") {
	case 0:
		nl = 1
	case 1:
		nl = 239
	case 2:
		nl = 240
	case 3:
		nl = 255
	default:
		nl = rapid.IntRange(1, 255).Draw(t, label+"_nl")
	}
	s.Name = hello.GenBytes(t, label+"_name", nl)
	return s
}

// c11ExactConfigs returns valid configs (ids 0,1,2,..., 100-byte names, the last one with
// an nl-byte name) whose encodings total exactly P bytes; k is the index of the last one.
func c11ExactConfigs(t *rapid.T, P int) (many []ech.Config, k, nl int) {
	mk := func(id uint8, nl int) ech.Config {
		c, err := ech.ConfigSpec{Version: 0xfe0d, ID: id, KEM: 0x20, PublicKey: bytes.Repeat([]byte{id}, 32), CipherSuites: []ech.CipherSuite{{KDF: 1, AEAD: 1}}, PublicName: bytes.Repeat([]byte("m"), nl)}.Bytes()
		if err != nil {
			ev.Violation(t, "C11", map[string]any{"name_len": nl}, "Bytes failed for a valid spec: %v", err)
		}
		return c
	}
	L := len(mk(0, 100))
	k = (P - (L - 100) - 1) / L
	nl = P - k*L - (L - 100)
	for i := 0; i < k; i++ {
		many = append(many, mk(uint8(i), 100))
	}
	many = append(many, mk(uint8(k), nl))
	return many, k, nl
}

func TestC11(t *testing.T) {
	rec := ev.Get("C11")
	rec.Rule("ConfigSpecs: id 0..255, KEM ids, public keys of 0..200 bytes and of 255..20000 bytes (valid X25519 points for interop cases), 0..8 cipher suites incl. unknown ids, public names of 1..255 bytes (and invalid lengths 0, 256..300), lists of 0..6 configs, and lists sized around the 65535-byte limit of the length prefix (largest that fits / one more / many more), lists with an exact payload length (values that are tags elsewhere in the format, e.g. 0xfe0d, and uniform 400..65535). Oracles: harness decoder written from draft section 4 reads Bytes() and agrees field by field; Spec()/ParseConfigList return the generated specs in order; harness-encoded configs parse to the same fields (both directions); crypto/tls client+server accept interop configs (outer SNI = public name, config id named, ECHAccepted on both sides); every strict prefix of a valid list is rejected; trailing bytes beyond declared lengths do not change the result; length fields +-1 never panic; one length field of a valid config changed by -4..+200: no panic and the result (acceptance and fields) is independent of every byte beyond the config's declared length, stand-alone and inside a list. distinct = encoding hash; non-trivial = name length not in {11,18} or id != 1 or non-default suites")
	rec.Mandatory("suites_cut_mid_suite", "name_len1", "name_len239", "name_len240", "name_len255", "list0", "list_ge3", "interop", "single_suite_aead1", "single_suite_aead2", "single_suite_aead3", "invalid_name_len", "prefix_rejected", "newconfig", "lenfield:contents_length", "lenfield:public_key_length", "lenfield:cipher_suites_length", "lenfield:public_name_length", "lenfield:extensions_length", "list_around_64k", "unknown_version_entry", "payload_len_equals_version_tag", "trailing_64k_of_configs", "newconfig_concurrent", "foreign_config_with_extensions")
	rapid.Check(t, func(t *rapid.T) {
		interop := rapid.IntRange(0, 9).Draw(t, "interop") == 0
		n := rapid.IntRange(0, 6).Draw(t, "nconfigs")
		if interop {
			n = rapid.IntRange(1, 3).Draw(t, "nconfigs_interop")
		}
		var specs []c11Spec
		var cfgs []ech.Config
		var cl []string
		for i := 0; i < n; i++ {
			s := drawC11Spec(t, fmt.Sprintf("s%d", i), interop)
			specs = append(specs, s)
			spec := ech.ConfigSpec{Version: 0xfe0d, ID: s.ID, KEM: s.KEM, PublicKey: s.Pub, PublicName: s.Name, MaximumNameLength: uint8(rapid.IntRange(0, 255).Draw(t, "mnl_ignored"))}
			for _, cs := range s.Suites {
				spec.CipherSuites = append(spec.CipherSuites, ech.CipherSuite{KDF: cs.KDF, AEAD: cs.AEAD})
			}
			var b ech.Config
			err := guard(func() error { var e error; b, e = spec.Bytes(); return e })
			rp := map[string]any{"spec": fmt.Sprintf("%+v", spec)}
			if err != nil {
				ev.Violation(t, "C11", rp, "ConfigSpec.Bytes failed for a valid spec: %v", err)
			}
			// (1) harness decoder
			f, perr := hello.ParseConfig(b)
			if perr != nil || f.Len != len(b) {
				ev.Violation(t, "C11", map[string]any{"spec": rp, "bytes": hx(b)}, "Bytes() is not a well-formed ECHConfig for the harness decoder: %v", perr)
			}
			want := hello.ConfigBytes(s.ID, s.KEM, s.Pub, s.Suites, uint8(min(len(s.Name)+16, 255)), s.Name)
			if !bytes.Equal(b, want) {
				ev.Violation(t, "C11", map[string]any{"got": hx(b), "want": hx(want)}, "Bytes() differs from the draft section 4 encoding")
			}
			// (2) round trip
			var back ech.ConfigSpec
			if e := guard(func() error { var e error; back, e = b.Spec(); return e }); e != nil {
				ev.Violation(t, "C11", map[string]any{"bytes": hx(b)}, "Spec() failed on Bytes() output: %v", e)
			}
			if d := sameSpec(back, s.ID, s.KEM, s.Pub, s.Suites, s.Name); d != "" {
				ev.Violation(t, "C11", map[string]any{"bytes": hx(b)}, "Spec() does not return the encoded fields: %s", d)
			}
			// (2b) the same fields as another tool would publish them: any maximum_name_length and
			// an extensions block with non-mandatory extensions (type high bit clear; a client
			// must skip those it does not know, draft section 4.2) - the fields parse to the same values
			if len(s.Name) >= 1 && len(s.Name) <= 255 && rapid.IntRange(0, 2).Draw(t, "foreign_encoding") == 0 {
				var exts []byte
				for j, ne := 0, rapid.IntRange(0, 3).Draw(t, "foreign_next"); j < ne; j++ {
					d := hello.GenBytes(t, "foreign_extdata", rapid.IntRange(0, 20).Draw(t, "foreign_extlen"))
					ty := 0x0100*(j+1) + rapid.IntRange(0, 255).Draw(t, "foreign_exttype") // distinct, high bit clear
					exts = append(exts, byte(ty>>8), byte(ty), byte(len(d)>>8), byte(len(d)))
					exts = append(exts, d...)
				}
				fmnl := uint8(rapid.IntRange(0, 255).Draw(t, "foreign_mnl"))
				canon := uint8(min(len(s.Name)+16, 255))
				foreign := hello.ConfigBytesExt(s.ID, s.KEM, s.Pub, s.Suites, fmnl, s.Name, exts)
				var fs ech.ConfigSpec
				if e := guard(func() error { var e error; fs, e = ech.Config(foreign).Spec(); return e }); e != nil {
					ev.Violation(t, "C11", map[string]any{"bytes": hx(foreign)}, "Spec() refuses a well-formed ECHConfig with %d non-mandatory extension(s): %v", len(exts)/4, e)
				}
				if fs.MaximumNameLength != fmnl {
					ev.Violation(t, "C11", map[string]any{"bytes": hx(foreign)}, "Spec() reports maximum_name_length %d, the config says %d", fs.MaximumNameLength, fmnl)
				}
				fs.MaximumNameLength = canon // sameSpec expects the derived value of this library's own encodings
				if d := sameSpec(fs, s.ID, s.KEM, s.Pub, s.Suites, s.Name); d != "" {
					ev.Violation(t, "C11", map[string]any{"bytes": hx(foreign)}, "Spec() of a config published by another tool: %s", d)
				}
				// and the parsed spec encodes again to a well-formed config with the same fields
				// (whatever this library does with extensions it does not know)
				var again ech.Config
				if e := guard(func() error { var e error; again, e = fs.Bytes(); return e }); e != nil {
					ev.Violation(t, "C11", map[string]any{"bytes": hx(foreign)}, "Bytes() of the spec parsed from a foreign config failed: %v", e)
				}
				extsOK := func(b []byte) bool { // ECHConfigExtension entries: type, 16-bit length, data
					for len(b) > 0 {
						if len(b) < 4 || len(b) < 4+(int(b[2])<<8|int(b[3])) {
							return false
						}
						b = b[4+(int(b[2])<<8|int(b[3])):]
					}
					return true
				}
				if af, perr := hello.ParseConfig(again); perr != nil || af.Len != len(again) || !extsOK(af.Extensions) || af.ID != s.ID || af.KEM != s.KEM || !bytes.Equal(af.PublicKey, s.Pub) || !bytes.Equal(af.PublicName, s.Name) || len(af.Suites) != len(s.Suites) {
					ev.Violation(t, "C11", map[string]any{"foreign": hx(foreign), "reencoded": hx(again)}, "a foreign config parsed with Spec() and encoded again with Bytes() is not a well-formed ECHConfig with the same fields (harness decode err=%v)", perr)
				}
				fl := append([]byte{byte(len(foreign) >> 8), byte(len(foreign))}, foreign...)
				var fps []ech.ConfigSpec
				if e := guard(func() error { var e error; fps, e = ech.ParseConfigList(fl); return e }); e != nil || len(fps) != 1 || func() bool {
					fps[0].MaximumNameLength = canon
					return sameSpec(fps[0], s.ID, s.KEM, s.Pub, s.Suites, s.Name) != ""
				}() {
					ev.Violation(t, "C11", map[string]any{"list": hx(fl)}, "ParseConfigList of a list holding a config published by another tool: %d specs, err=%v", len(fps), e)
				}
				if len(exts) > 0 {
					cl = append(cl, "foreign_config_with_extensions")
				}
			}
			// the caller may edit the returned spec (its fields may well be views of the config
			// it was parsed from, so that config is not looked at again): an untouched copy of the
			// same bytes still parses to what the bytes say - parses do not share state
			pristine := append(ech.Config{}, b...)
			for j := range back.PublicName {
				back.PublicName[j] ^= 0x20
			}
			for j := range back.PublicKey {
				back.PublicKey[j] ^= 0xff
			}
			for j := range back.CipherSuites {
				back.CipherSuites[j].AEAD ^= 0x7
			}
			for _, again := range []ech.Config{pristine, append(ech.Config{}, pristine...)} {
				var back2 ech.ConfigSpec
				if e := guard(func() error { var e error; back2, e = again.Spec(); return e }); e != nil {
					ev.Violation(t, "C11", map[string]any{"bytes": hx(pristine)}, "Spec() of a copy of the same bytes failed: %v", e)
				}
				if d := sameSpec(back2, s.ID, s.KEM, s.Pub, s.Suites, s.Name); d != "" {
					ev.Violation(t, "C11", map[string]any{"bytes": hx(pristine)}, "Spec() of a copy of the same bytes, after the caller edited the result of an earlier parse: %s", d)
				}
			}
			copy(b, pristine) // undo the caller's edit in the bytes the first spec is a view of; b stays the slice Bytes() returned
			cfgs = append(cfgs, b)
			switch len(s.Name) {
			case 1:
				cl = append(cl, "name_len1")
			case 239:
				cl = append(cl, "name_len239")
			case 240:
				cl = append(cl, "name_len240")
			case 255:
				cl = append(cl, "name_len255")
			}
			if len(s.Suites) == 1 && s.Suites[0].KDF == 1 && s.Suites[0].AEAD >= 1 && s.Suites[0].AEAD <= 3 {
				cl = append(cl, fmt.Sprintf("single_suite_aead%d", s.Suites[0].AEAD))
			}
		}
		var list []byte
		if e := guard(func() error { var e error; list, e = ech.ConfigList(cfgs); return e }); e != nil {
			ev.Violation(t, "C11", map[string]any{"n": n}, "ConfigList failed: %v", e)
		}
		var wantList []byte
		for _, c := range cfgs {
			wantList = append(wantList, c...)
		}
		wantList = append([]byte{byte(len(wantList) >> 8), byte(len(wantList))}, wantList...)
		if !bytes.Equal(list, wantList) {
			ev.Violation(t, "C11", map[string]any{"got": hx(list), "want": hx(wantList)}, "ConfigList is not the length-prefixed concatenation of its configs")
		}
		var parsed []ech.ConfigSpec
		if e := guard(func() error { var e error; parsed, e = ech.ParseConfigList(list); return e }); e != nil {
			ev.Violation(t, "C11", map[string]any{"list": hx(list)}, "ParseConfigList failed on ConfigList output: %v", e)
		}
		if len(parsed) != len(specs) {
			ev.Violation(t, "C11", map[string]any{"list": hx(list)}, "ParseConfigList returned %d specs for %d configs", len(parsed), len(specs))
		}
		for i, s := range specs {
			if d := sameSpec(parsed[i], s.ID, s.KEM, s.Pub, s.Suites, s.Name); d != "" {
				ev.Violation(t, "C11", map[string]any{"list": hx(list)}, "ParseConfigList spec %d: %s", i, d)
			}
		}
		switch {
		case n == 0:
			cl = append(cl, "list0")
		case n >= 3:
			cl = append(cl, "list_ge3")
		}
		// (4) parser robustness on this list
		if len(list) > 2 {
			k := uniform(t, "prefix", len(list))
			var e error
			var ps []ech.ConfigSpec
			e = guard(func() error { var e error; ps, e = ech.ParseConfigList(list[:k]); return e })
			if isPanic(e) {
				ev.Violation(t, "C11", map[string]any{"bytes": hx(list[:k])}, "ParseConfigList panicked: %v", e)
			}
			if e == nil {
				ev.Violation(t, "C11", map[string]any{"bytes": hx(list[:k]), "full": hx(list)}, "ParseConfigList accepted a strict prefix (%d of %d bytes) and returned %d configs", k, len(list), len(ps))
			}
			cl = append(cl, "prefix_rejected")
			// trailing garbage after the declared list length does not change the result
			junk := hello.GenBytes(t, "junk", rapid.IntRange(1, 20).Draw(t, "junklen"))
			if rapid.IntRange(0, 19).Draw(t, "junk_64k") == 0 {
				// the caller's buffer holds a multiple of 65536 more bytes, all of them
				// well-formed configs: lengths compared modulo 2^16 would take them for the list
				more, _, _ := c11ExactConfigs(t, 65536*rapid.IntRange(1, 2).Draw(t, "junk_64k_times"))
				junk = bytes.Join(func() [][]byte {
					var bs [][]byte
					for _, c := range more {
						bs = append(bs, c)
					}
					return bs
				}(), nil)
				cl = append(cl, "trailing_64k_of_configs", "newconfig_concurrent", "foreign_config_with_extensions")
			}
			var p2 []ech.ConfigSpec
			e = guard(func() error {
				var e error
				p2, e = ech.ParseConfigList(append(append([]byte{}, list...), junk...))
				return e
			})
			if isPanic(e) {
				ev.Violation(t, "C11", map[string]any{"bytes": hx(list), "junk": hx(junk)}, "panic: %v", e)
			}
			if e == nil && fmt.Sprintf("%+v", p2) != fmt.Sprintf("%+v", parsed) {
				ev.Violation(t, "C11", map[string]any{"bytes": hx(list), "junk": hx(junk)}, "bytes after the declared list length changed the parse result (over-read)")
			}
			// a single config followed by junk: Spec() must give the same answer
			if len(cfgs) > 0 {
				var s1, s2 ech.ConfigSpec
				guard(func() error { s1, _ = cfgs[0].Spec(); return nil })
				e := guard(func() error {
					var e error
					s2, e = ech.Config(append(append([]byte{}, cfgs[0]...), junk...)).Spec()
					return e
				})
				if isPanic(e) || (e == nil && fmt.Sprintf("%+v", s1) != fmt.Sprintf("%+v", s2)) {
					ev.Violation(t, "C11", map[string]any{"bytes": hx(cfgs[0]), "junk": hx(junk)}, "bytes after the declared config length changed Spec() (err=%v)", e)
				}
			}
			if len(cfgs) > 0 {
				k := uniform(t, "cfgprefix", len(cfgs[0]))
				e := guard(func() error { _, e := cfgs[0][:k].Spec(); return e })
				if isPanic(e) || e == nil {
					ev.Violation(t, "C11", map[string]any{"bytes": hx(cfgs[0][:k]), "full": hx(cfgs[0])}, "Spec() accepted a truncated config (%d of %d bytes) (err=%v)", k, len(cfgs[0]), e)
				}
			}
			// perturb one byte (length fields included): must not panic
			m := append([]byte{}, list...)
			p := uniform(t, "perturb", len(m))
			m[p] += byte(1 + 254*rapid.IntRange(0, 1).Draw(t, "pm"))
			if e := guard(func() error { _, e := ech.ParseConfigList(m); return e }); isPanic(e) {
				ev.Violation(t, "C11", map[string]any{"bytes": hx(m)}, "ParseConfigList panicked: %v", e)
			}
			if e := guard(func() error { _, e := ech.Config(m[2:]).Spec(); return e }); isPanic(e) {
				ev.Violation(t, "C11", map[string]any{"bytes": hx(m[2:])}, "Spec panicked: %v", e)
			}
		}
		// (5) one length field of a valid config made inconsistent with what encloses it:
		// no panic, and nothing outside the config's declared length may influence the
		// result (neither acceptance nor any returned field)
		if len(cfgs) > 0 {
			s0 := specs[0]
			offPK := 4 + 1 + 2
			offSuites := offPK + 2 + len(s0.Pub)
			offName := offSuites + 2 + 4*len(s0.Suites) + 1
			offExt := offName + 1 + len(s0.Name)
			type lf struct {
				name string
				off  int
				size int
			}
			fields := []lf{{"contents_length", 2, 2}, {"public_key_length", offPK, 2}, {"cipher_suites_length", offSuites, 2}, {"public_name_length", offName, 1}, {"extensions_length", offExt, 2}}
			fld := fields[uniform(t, "lenfield", len(fields))]
			pcfg := append([]byte{}, cfgs[0]...)
			if offExt+2 != len(pcfg) {
				t.Fatalf("harness: config layout mismatch (%d != %d)", offExt+2, len(pcfg))
			}
			old := int(pcfg[fld.off])
			if fld.size == 2 {
				old = old<<8 | int(pcfg[fld.off+1])
			}
			delta := rapid.SampledFrom([]int{-4, -3, -2, -1, 1, 2, 3, 4, 7, 32, 200}).Draw(t, "lendelta")
			nv := old + delta
			if nv < 0 {
				nv = old + 1
			}
			if fld.size == 1 {
				nv &= 0xff
				pcfg[fld.off] = byte(nv)
			} else {
				nv &= 0xffff
				pcfg[fld.off], pcfg[fld.off+1] = byte(nv>>8), byte(nv)
			}
			if nv != old {
				declared := 4 + (int(pcfg[2])<<8 | int(pcfg[3]))
				what := fmt.Sprintf("%s %d -> %d", fld.name, old, nv)
				if declared > len(pcfg) {
					// declared length beyond the input: truncated
					exact := make([]byte, len(pcfg))
					copy(exact, pcfg)
					e := guard(func() error { _, e := ech.Config(exact[:len(exact):len(exact)]).Spec(); return e })
					if isPanic(e) || e == nil {
						ev.Violation(t, "C11", map[string]any{"bytes": hx(pcfg)}, "Spec() accepted / panicked on a config whose declared length exceeds the input (%s): %v", what, e)
					}
				} else {
					region := pcfg[:declared]
					junkA := hello.GenBytes(t, "lf_junk_a", 300)
					junkB := make([]byte, 300)
					for i := range junkB {
						junkB[i] = ^junkA[i]
					}
					variants := [][]byte{make([]byte, declared), append(append([]byte{}, region...), junkA...), append(append([]byte{}, region...), junkB...)}
					copy(variants[0], region)
					variants[0] = variants[0][:declared:declared]
					var outs []string
					for vi, v := range variants {
						var sp ech.ConfigSpec
						e := guard(func() error { var e error; sp, e = ech.Config(v).Spec(); return e })
						if isPanic(e) {
							ev.Violation(t, "C11", map[string]any{"bytes": hx(v)}, "Spec() panicked on a config with an inconsistent length field (%s, variant %d): %v", what, vi, e)
						}
						if e != nil {
							outs = append(outs, "rejected")
						} else {
							outs = append(outs, fmt.Sprintf("%+v", sp))
						}
					}
					if outs[0] != outs[1] || outs[1] != outs[2] {
						ev.Violation(t, "C11", map[string]any{"config": hx(region), "junk_a": hx(junkA)}, "bytes beyond the config's declared length influence Spec() after %s (read beyond declared lengths):\n exact: %s\n +junkA: %s\n +junkB: %s", what, outs[0], outs[1], outs[2])
					}
					// the same inside a list: the next config's contents must not leak into this one
					nextA := hello.ConfigBytes(9, 0x20, junkA[:32], hello.AllSuites, 64, junkA[32:32+200])
					nextB := hello.ConfigBytes(9, 0x20, junkB[:32], hello.AllSuites, 64, junkB[32:32+200])
					var louts []string
					for _, nx := range [][]byte{nextA, nextB} {
						l := append([]byte{byte((declared + len(nx)) >> 8), byte(declared + len(nx))}, region...)
						l = append(l, nx...)
						var ps []ech.ConfigSpec
						e := guard(func() error { var e error; ps, e = ech.ParseConfigList(l); return e })
						if isPanic(e) {
							ev.Violation(t, "C11", map[string]any{"bytes": hx(l)}, "ParseConfigList panicked on a config with an inconsistent length field (%s): %v", what, e)
						}
						if e != nil || len(ps) == 0 {
							louts = append(louts, "rejected")
						} else {
							louts = append(louts, fmt.Sprintf("%+v", ps[0]))
						}
					}
					if louts[0] != louts[1] {
						ev.Violation(t, "C11", map[string]any{"config": hx(region), "next_a": hx(nextA), "next_b": hx(nextB)}, "the following config of the list influences how this one is parsed after %s:\n %s\n %s", what, louts[0], louts[1])
					}
				}
				cl = append(cl, "lenfield:"+fld.name)
			}
		}
		// (6) lists around the 65535-byte limit of the length prefix: the largest list that
		// fits round-trips; one config more must be refused, never emitted with a wrapped length
		if rapid.IntRange(0, 39).Draw(t, "huge_list") == 0 {
			nameLen := rapid.IntRange(200, 255).Draw(t, "huge_name_len")
			one, err := ech.ConfigSpec{Version: 0xfe0d, ID: 9, KEM: 0x20, PublicKey: make([]byte, 32), CipherSuites: []ech.CipherSuite{{KDF: 1, AEAD: 1}}, PublicName: bytes.Repeat([]byte("n"), nameLen)}.Bytes()
			if err != nil {
				ev.Violation(t, "C11", map[string]any{"name_len": nameLen}, "Bytes failed for a valid spec: %v", err)
			}
			fit := 65535 / len(one)
			for _, n := range []int{fit, fit + 1, fit + 1 + rapid.IntRange(1, 400).Draw(t, "huge_more")} {
				many := make([]ech.Config, n)
				for i := range many {
					many[i] = one
				}
				var l []byte
				e := guard(func() error { var e error; l, e = ech.ConfigList(many); return e })
				if isPanic(e) {
					ev.Violation(t, "C11", map[string]any{"configs": n, "config_len": len(one)}, "ConfigList panicked: %v", e)
				}
				if n <= fit && e != nil {
					ev.Violation(t, "C11", map[string]any{"configs": n, "config_len": len(one)}, "ConfigList refused a list of %d bytes: %v", n*len(one), e)
				}
				if e == nil {
					ps, perr := ech.ParseConfigList(l)
					if len(l) != 2+n*len(one) || int(l[0])<<8|int(l[1]) != n*len(one) || perr != nil || len(ps) != n {
						ev.Violation(t, "C11", map[string]any{"configs": n, "config_len": len(one), "list_len": len(l), "prefix": hx(l[:min(len(l), 2)])}, "ConfigList returned a malformed list for %d configs of %d bytes (%d bytes of payload do not fit a 16-bit length): declared %d, parse gives %d configs, err=%v", n, len(one), n*len(one), int(l[0])<<8|int(l[1]), len(ps), perr)
					}
				}
			}
			cl = append(cl, "list_around_64k")
		}
		// (6b) lists whose payload length is an exact value: the 16-bit prefix then spells a
		// value that means something elsewhere in the format (0xfe0d is the ECHConfig version),
		// which must not change how the list is read
		if rapid.IntRange(0, 19).Draw(t, "exact_payload") == 0 {
			P := rapid.SampledFrom([]int{0xfe0d, 0xfe0d, 0xfe0c, 0xfe0e, 0xfe0a, 0xfe09, 0x0dfe, 0xff00, 0x0100, 65535}).Draw(t, "exact_payload_len")
			if rapid.IntRange(0, 3).Draw(t, "exact_payload_any") == 0 {
				P = 400 + uniform(t, "exact_payload_uniform", 65136)
			}
			many, k, nl := c11ExactConfigs(t, P)
			var l []byte
			if e := guard(func() error { var e error; l, e = ech.ConfigList(many); return e }); e != nil {
				ev.Violation(t, "C11", map[string]any{"configs": len(many), "payload": P}, "ConfigList refused a list with %d bytes of payload: %v", P, e)
			}
			if len(l) != P+2 {
				t.Fatalf("harness: built %d bytes of payload, wanted %d (k=%d nl=%d)", len(l)-2, P, k, nl)
			}
			var ps []ech.ConfigSpec
			e := guard(func() error { var e error; ps, e = ech.ParseConfigList(l); return e })
			if e != nil || len(ps) != len(many) {
				ev.Violation(t, "C11", map[string]any{"configs": len(many), "payload": P, "prefix": hx(l[:2])}, "ParseConfigList of a valid list with %d configs and %d (%#x) bytes of payload: %d configs, err=%v", len(many), P, P, len(ps), e)
			}
			for i, sp := range ps {
				wantNL := 100
				if i == k {
					wantNL = nl
				}
				if sp.ID != uint8(i) || len(sp.PublicName) != wantNL || !bytes.Equal(sp.PublicKey, bytes.Repeat([]byte{uint8(i)}, 32)) {
					ev.Violation(t, "C11", map[string]any{"configs": len(many), "payload": P}, "ParseConfigList: entry %d of the %d-byte list comes back as id %d with a %d-byte name", i, P, sp.ID, len(sp.PublicName))
				}
			}
			if P == 0xfe0d {
				cl = append(cl, "payload_len_equals_version_tag", "trailing_64k_of_configs", "newconfig_concurrent", "foreign_config_with_extensions")
			}
		}
		// (7) an entry of a version this code does not know, whose opaque body happens to hold the
		// bytes of a valid ECHConfig: the list is refused, or the entry is skipped as a whole -
		// what is inside its declared length is never taken for list entries
		if len(cfgs) > 0 && rapid.IntRange(0, 3).Draw(t, "unknown_version_entry") == 0 {
			embedded := hello.ConfigBytes(200, 0x20, make([]byte, 32), hello.AllSuites, 30, []byte("embedded.example"))
			body := append([]byte{}, embedded...)
			if rapid.Bool().Draw(t, "unknown_odd_body") {
				body = append([]byte{0x55}, body...)
			}
			ver := []uint16{0xfe0c, 0xfe0a, 0xff03, 0x0001}[rapid.IntRange(0, 3).Draw(t, "unknown_version")]
			entry := append([]byte{byte(ver >> 8), byte(ver), byte(len(body) >> 8), byte(len(body))}, body...)
			pos := rapid.IntRange(0, len(cfgs)).Draw(t, "unknown_pos")
			var payload []byte
			for i, c := range cfgs {
				if i == pos {
					payload = append(payload, entry...)
				}
				payload = append(payload, c...)
			}
			if pos == len(cfgs) {
				payload = append(payload, entry...)
			}
			if len(payload) <= 65535 {
				l := append([]byte{byte(len(payload) >> 8), byte(len(payload))}, payload...)
				var ps []ech.ConfigSpec
				e := guard(func() error { var e error; ps, e = ech.ParseConfigList(l); return e })
				if isPanic(e) {
					ev.Violation(t, "C11", map[string]any{"bytes": hx(l)}, "ParseConfigList panicked on a list with an unknown-version entry: %v", e)
				}
				if e == nil {
					ok := len(ps) == len(specs)
					for i := 0; ok && i < len(ps); i++ {
						ok = sameSpec(ps[i], specs[i].ID, specs[i].KEM, specs[i].Pub, specs[i].Suites, specs[i].Name) == ""
					}
					if !ok {
						ev.Violation(t, "C11", map[string]any{"bytes": hx(l), "unknown_entry_at": pos}, "a list with an entry of unknown version %#04x was accepted but does not parse to exactly its %d known-version configs (%d returned): bytes inside the unknown entry's declared length were interpreted", ver, len(specs), len(ps))
					}
				}
				cl = append(cl, "unknown_version_entry")
			}
		}
		// a cipher_suites vector cut in the middle of a suite (all enclosing lengths consistent)
		if rapid.IntRange(0, 3).Draw(t, "odd_suites") == 0 {
			k := drawKey(t, "oddk", -1, "odd.example")
			good := k.Config
			// locate the suites vector: version(2) len(2) id(1) kem(2) pklen(2) pk(32) suiteslen(2)
			off := 2 + 2 + 1 + 2 + 2 + 32
			sl := int(good[off])<<8 | int(good[off+1])
			cut := 1 + rapid.IntRange(0, 2).Draw(t, "odd_cut") // drop 1..3 bytes of the last suite
			bad := append([]byte{}, good[:off+2+sl-cut]...)
			bad = append(bad, good[off+2+sl:]...)
			bad[off], bad[off+1] = byte((sl-cut)>>8), byte(sl-cut)
			total := len(bad) - 4
			bad[2], bad[3] = byte(total>>8), byte(total)
			if _, perr := hello.ParseConfig(bad); perr == nil {
				t.Fatalf("harness: strict decoder accepts a suite vector of %d bytes", sl-cut)
			}
			e := guard(func() error { _, e := ech.Config(bad).Spec(); return e })
			if e == nil || isPanic(e) {
				ev.Violation(t, "C11", map[string]any{"bytes": hx(bad)}, "Spec() accepted a config whose cipher_suites vector is %d bytes long (cut inside a suite) (err=%v)", sl-cut, e)
			}
			lst := append([]byte{byte(len(bad) >> 8), byte(len(bad))}, bad...)
			e = guard(func() error { _, e := ech.ParseConfigList(lst); return e })
			if e == nil || isPanic(e) {
				ev.Violation(t, "C11", map[string]any{"bytes": hx(lst)}, "ParseConfigList accepted a config whose cipher_suites vector is cut inside a suite (err=%v)", e)
			}
			cl = append(cl, "suites_cut_mid_suite")
		}
		// invalid name lengths must be refused by the encoder
		if rapid.IntRange(0, 4).Draw(t, "invalid") == 0 {
			nl := rapid.SampledFrom([]int{0, 256, 257, 300}).Draw(t, "badlen")
			bad := ech.ConfigSpec{Version: 0xfe0d, ID: 1, KEM: 0x20, PublicKey: make([]byte, 32), PublicName: make([]byte, nl)}
			var b ech.Config
			e := guard(func() error { var e error; b, e = bad.Bytes(); return e })
			if isPanic(e) {
				ev.Violation(t, "C11", map[string]any{"name_len": nl}, "Bytes panicked: %v", e)
			}
			if e == nil {
				ev.Violation(t, "C11", map[string]any{"name_len": nl, "bytes": hx(b)}, "Bytes accepted a public name of %d bytes", nl)
			}
			_, _, e2 := ech.NewConfig(1, make([]byte, nl))
			if e2 == nil {
				ev.Violation(t, "C11", map[string]any{"name_len": nl}, "NewConfig accepted a public name of %d bytes", nl)
			}
			cl = append(cl, "invalid_name_len")
		}
		// NewConfig
		if rapid.IntRange(0, 4).Draw(t, "newconfig") == 0 {
			id := uint8(rapid.IntRange(0, 255).Draw(t, "nc_id"))
			name := []byte(hello.TwoLabels(hello.GenName(t, "nc_name", 253)))
			priv, cfg, e := ech.NewConfig(id, name)
			if e != nil {
				ev.Violation(t, "C11", map[string]any{"name": string(name)}, "NewConfig failed: %v", e)
			}
			f, perr := hello.ParseConfig(cfg)
			if perr != nil || f.Len != len(cfg) || f.ID != id || f.KEM != 0x20 || !bytes.Equal(f.PublicName, name) || !bytes.Equal(f.PublicKey, priv.PublicKey().Bytes()) || int(f.MaxNameLen) != min(len(name)+16, 255) || len(f.Extensions) != 0 || len(f.Suites) != 3 {
				ev.Violation(t, "C11", map[string]any{"bytes": hx(cfg)}, "NewConfig output is not the expected ECHConfig (harness decode err=%v): %+v", perr, f)
			}
			cl = append(cl, "newconfig")
			if rapid.IntRange(0, 3).Draw(t, "nc_concurrent") == 0 {
				// a server that makes its configs from several goroutines at once (one per hosted
				// name, or Dial calls bootstrapping with PublicName): every call gets its own config
				w := rapid.IntRange(2, 8).Draw(t, "nc_workers")
				type out struct {
					priv []byte
					pub  []byte
					cfg  ech.Config
					err  error
				}
				res := make([]out, w*4)
				names := make([][]byte, len(res))
				for i := range names {
					names[i] = []byte(fmt.Sprintf("w%d.%s", i, name[:min(len(name), 240)]))
				}
				start := make(chan struct{})
				var wg sync.WaitGroup
				for g := 0; g < w; g++ {
					wg.Add(1)
					go func(g int) {
						defer wg.Done()
						<-start
						for i := g * 4; i < g*4+4; i++ {
							p, c, e := ech.NewConfig(id+uint8(i), names[i])
							res[i] = out{cfg: c, err: e}
							if e == nil {
								res[i].priv, res[i].pub = p.Bytes(), p.PublicKey().Bytes()
							}
						}
					}(g)
				}
				close(start)
				wg.Wait()
				for i, r := range res {
					f, perr := hello.ParseConfig(r.cfg)
					if r.err != nil || perr != nil || f.ID != id+uint8(i) || !bytes.Equal(f.PublicName, names[i]) || !bytes.Equal(f.PublicKey, r.pub) || int(f.MaxNameLen) != min(len(names[i])+16, 255) {
						ev.Violation(t, "C11", map[string]any{"bytes": hx(r.cfg), "want_id": id + uint8(i), "want_name": string(names[i])}, "NewConfig called from %d goroutines at once: call %d did not get the config it asked for (err=%v, decode err=%v): %+v", w, i, r.err, perr, f)
					}
				}
				cl = append(cl, "newconfig_concurrent", "foreign_config_with_extensions")
			}
			if rapid.IntRange(0, 3).Draw(t, "nc_interop") == 0 {
				l, _ := ech.ConfigList([]ech.Config{cfg})
				ca, sa, first, e := tlsInterop(t, l, []tls.EncryptedClientHelloKey{{Config: cfg, PrivateKey: priv.Bytes(), SendAsRetry: true}}, "inner.example")
				if e != nil || !ca || !sa {
					ev.Violation(t, "C11", map[string]any{"list": hx(l), "first_record": hx(first)}, "crypto/tls does not accept a NewConfig config (client accepted=%v server accepted=%v err=%v)", ca, sa, e)
				}
				cl = append(cl, "interop")
			}
		}
		// (3) crypto/tls interop
		if interop {
			var keys []tls.EncryptedClientHelloKey
			for i, s := range specs {
				keys = append(keys, tls.EncryptedClientHelloKey{Config: cfgs[i], PrivateKey: s.Priv, SendAsRetry: true})
			}
			ca, sa, first, e := tlsInterop(t, list, keys, "inner.example")
			rp := map[string]any{"list": hx(list), "first_record": hx(first)}
			if e != nil || !ca || !sa {
				ev.Violation(t, "C11", rp, "crypto/tls does not accept the config list (client accepted=%v, server accepted=%v, err=%v)", ca, sa, e)
			}
			if len(first) < 9 {
				ev.Violation(t, "C11", rp, "no client hello captured")
			}
			oh, perr := hello.ParseMessage(first[5:])
			if perr != nil {
				t.Fatalf("harness: cannot parse crypto/tls hello: %v", perr)
			}
			ei := oh.Find(hello.ExtECH)
			if ei < 0 {
				ev.Violation(t, "C11", rp, "crypto/tls client sent no ECH extension")
			}
			id := oh.Exts[ei].Data[5]
			found := false
			for _, s := range specs {
				if s.ID == id && oh.SNI() == string(s.Name) {
					found = true
				}
			}
			if !found {
				ev.Violation(t, "C11", rp, "crypto/tls client named config id %d with outer SNI %q: no config of the list matches", id, oh.SNI())
			}
			cl = append(cl, "interop")
		}
		sum := sha256.Sum256(list)
		nontrivial := false
		for _, s := range specs {
			if (len(s.Name) != 11 && len(s.Name) != 18) || s.ID != 1 {
				nontrivial = true
			}
		}
		rec.Case(hx(sum[:8]), nontrivial || n == 0, cl, func() any {
			var sm []map[string]any
			for _, s := range specs {
				sm = append(sm, map[string]any{"id": s.ID, "kem": s.KEM, "pub_len": len(s.Pub), "suites": s.Suites, "name_len": len(s.Name)})
			}
			return map[string]any{"configs": sm, "interop": interop}
		})
	})
}

// FuzzParseConfig: arbitrary bytes never panic; accepted inputs re-encode consistently.
func FuzzParseConfig(f *testing.F) {
	k, _ := hello.NewKey(make([]byte, 32), 7, "public.example", hello.AllSuites)
	l := append([]byte{byte(len(k.Config) >> 8), byte(len(k.Config))}, k.Config...)
	f.Add(l)
	f.Add(l[:len(l)-1])
	f.Add([]byte{0, 0})
	f.Add([]byte{0xff, 0xff, 0xfe, 0x0d, 0xff, 0xff})
	f.Fuzz(func(t *testing.T, b []byte) {
		specs, err := ech.ParseConfigList(b)
		if err == nil {
			for _, s := range specs {
				if len(s.PublicName) > 0 {
					if _, e := s.Bytes(); e != nil {
						t.Fatalf("VERIF-VIOLATION property=C11 replay=- :: parsed spec does not re-encode: %v", e)
					}
				}
			}
		}
		ech.Config(b).Spec()
	})
}
