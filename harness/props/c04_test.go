package props

import (
	"context"
	"errors"
	"fmt"
	"io"
	"sort"
	"strings"
	"testing"

	"github.com/c2FmZQ/ech"
	"pgregory.net/rapid"

	"verif/harness/ev"
	"verif/harness/hello"
	"verif/harness/wire"
)

var alertClass = map[string]struct {
	err  error
	desc int
}{
	"illegal_parameter":  {ech.ErrIllegalParameter, 47},
	"decode_error":       {ech.ErrDecodeError, 50},
	"decrypt_error":      {ech.ErrDecryptError, 51},
	"missing_extension":  {ech.ErrMissingExtension, 109},
	"unexpected_message": {ech.ErrUnexpectedMessage, 10},
}

// checkAbortClasses is the C04 oracle: the call returned an error of one of
// the acceptable classes, nothing of the hello is readable from the Conn, and
// the transport saw exactly one fatal alert of the matching description
// followed by Close.
func checkAbortClasses(t ev.Failer, prop string, rp map[string]any, tr *wire.Conn, conn *ech.Conn, err error, classes []string) string {
	if isPanic(err) {
		ev.Violation(t, prop, rp, "panic instead of an abort: %v", err)
	}
	if err == nil {
		ev.Violation(t, prop, rp, "illegal hello was not aborted (want %v; accepted=%v)", classes, conn.ECHAccepted())
	}
	got := ""
	for _, c := range classes {
		if errors.Is(err, alertClass[c].err) {
			got = c
		}
	}
	if got == "" {
		ev.Violation(t, prop, rp, "error %q is not of class %v", err, classes)
	}
	if conn != nil {
		buf := make([]byte, 64)
		var n int
		e := guard(func() error { var e error; n, e = conn.Read(buf); return e })
		if n > 0 {
			ev.Violation(t, prop, rp, "%d bytes readable from the Conn after the abort (err=%v)", n, e)
		}
	}
	w, events := tr.Snapshot()
	if kf, ok := ev.Known(prop, "newconn-sends-no-alert"); ok && len(w) == 0 {
		ev.Get(prop).KnownHit("newconn-sends-no-alert", kf)
		return got
	}
	want := []byte{0x15, 3, 3, 0, 2, 2, byte(alertClass[got].desc)}
	if len(w) != 7 || w[0] != want[0] || string(w[3:]) != string(want[3:]) {
		ev.Violation(t, prop, rp, "client did not receive exactly one fatal %s alert: transport got %x", got, w)
	}
	closed, writesAfterClose := false, false
	for _, e := range events {
		if e.Kind == "close" {
			closed = true
		} else if e.Kind == "write" && closed {
			writesAfterClose = true
		}
	}
	if !closed || writesAfterClose {
		ev.Violation(t, prop, rp, "alert not followed by end of stream (closed=%v)", closed)
	}
	return got
}

func checkAbort(t ev.Failer, prop string, rp map[string]any, tr *wire.Conn, conn *ech.Conn, err error, class string, desc int) {
	checkAbortClasses(t, prop, rp, tr, conn, err, strings.Split(class, "|"))
}

// fault describes one injected rule violation.
type fault struct {
	name  string
	class string
	stage int
}

var c04Faults = []fault{
	{"outer_has_outer_extensions", "illegal_parameter", 5},
	{"outer_ech_type_inner", "illegal_parameter", 6},
	{"ech_type_unknown", "illegal_parameter", 6},
	{"outer_ech_ext_empty_body", "decode_error", 6},
	{"outer_sni_mismatch", "illegal_parameter", 5},
	{"outer_sni_absent", "illegal_parameter", 5},
	{"inner_no_ech_ext", "illegal_parameter", 1},
	{"inner_ech_ext_outer_type", "illegal_parameter", 1},
	{"inner_tls12_only", "illegal_parameter", 1},
	{"inner_no_versions", "illegal_parameter", 1},
	{"padding_nonzero", "illegal_parameter", 3},
	{"oe_list_odd", "decode_error", 2},
	{"oe_list_len_beyond", "decode_error", 2},
	{"oe_data_empty", "decode_error", 2},
	{"oe_out_of_order", "illegal_parameter", 2},
	{"oe_repeated", "illegal_parameter", 2},
	{"oe_absent", "illegal_parameter", 2},
	{"oe_names_ech", "illegal_parameter", 2},
	{"oe_names_marker", "illegal_parameter", 2},
	{"oe_marker_twice", "illegal_parameter", 2},
	{"inner_truncated", "decode_error", 4},
	{"outer_truncated", "decode_error", 6},
	{"record_not_handshake", "unexpected_message", 7},
	{"msg_not_client_hello", "unexpected_message", 7},
}

func hasFault(fs []fault, n string) bool {
	for _, f := range fs {
		if f.name == n {
			return true
		}
	}
	return false
}

// c04Build draws a valid sealed tuple and injects 1..3 rule violations; it returns the
// record to send, the server's key, the error classes the faults map to, a description
// of the faults and their class labels. (Also used by C08 as a source of authentic but
// illegal hellos.)
func c04Build(t *rapid.T) (record []byte, key *hello.Key, classes []string, desc []string, cl []string) {
	{
		pub := hello.GenName(t, "public_name", 253)
		key = drawKey(t, "key", -1, pub)
		tp := hello.GenTuple(t, hello.TupleOpts{PublicName: pub})
		// choose faults
		nf := 1
		if rapid.IntRange(0, 3).Draw(t, "multi") == 0 {
			nf = rapid.IntRange(2, 3).Draw(t, "nfaults")
		}
		var fs []fault
		for len(fs) < nf {
			f := c04Faults[uniform(t, "fault", len(c04Faults))]
			if hasFault(fs, f.name) {
				continue
			}
			fs = append(fs, f)
		}
		// incompatibilities: resolve by dropping
		drop := func(n string) {
			var o []fault
			for _, f := range fs {
				if f.name != n {
					o = append(o, f)
				}
			}
			fs = o
		}
		if len(fs) > 1 {
			oe := 0
			for _, f := range fs {
				if strings.HasPrefix(f.name, "oe_") {
					oe++
				}
			}
			for _, f := range append([]fault{}, fs...) {
				if strings.HasPrefix(f.name, "oe_") && oe > 1 && len(fs) > 1 {
					drop(f.name)
					oe--
				}
			}
			if hasFault(fs, "inner_truncated") {
				for _, n := range []string{"padding_nonzero", "inner_no_ech_ext", "inner_ech_ext_outer_type", "inner_tls12_only", "inner_no_versions"} {
					if len(fs) > 1 {
						drop(n)
					}
				}
				for _, f := range append([]fault{}, fs...) {
					if strings.HasPrefix(f.name, "oe_") && len(fs) > 1 {
						drop(f.name)
					}
				}
			}
			for _, pair := range [][2]string{{"outer_sni_mismatch", "outer_sni_absent"}, {"outer_ech_type_inner", "ech_type_unknown"}, {"outer_ech_type_inner", "outer_ech_ext_empty_body"}, {"ech_type_unknown", "outer_ech_ext_empty_body"}, {"inner_no_ech_ext", "inner_ech_ext_outer_type"}, {"inner_tls12_only", "inner_no_versions"}, {"record_not_handshake", "msg_not_client_hello"}} {
				if hasFault(fs, pair[0]) && hasFault(fs, pair[1]) {
					drop(pair[1])
				}
			}
		}
		sort.Slice(fs, func(i, j int) bool { return fs[i].stage < fs[j].stage })
		inner := tp.Inner.Clone()
		// --- stage 1: inner semantic faults
		if hasFault(fs, "inner_no_ech_ext") {
			i := inner.Find(hello.ExtECH)
			if i >= tp.RunStart && tp.RunLen > 0 && i < tp.RunStart {
				tp.RunStart--
			}
			if i < tp.RunStart {
				tp.RunStart--
			}
			inner.Exts = append(inner.Exts[:i], inner.Exts[i+1:]...)
			desc = append(desc, "inner_no_ech_ext")
		}
		if hasFault(fs, "inner_ech_ext_outer_type") {
			i := inner.Find(hello.ExtECH)
			inner.Exts[i].Data = hello.ECHOuterExt(1, 1, 7, make([]byte, 32), make([]byte, 40))
			desc = append(desc, "inner_ech_ext_outer_type")
		}
		vi := inner.Find(hello.ExtSupportedVersions)
		vCompressed := vi >= tp.RunStart && vi < tp.RunStart+tp.RunLen
		if hasFault(fs, "inner_tls12_only") || hasFault(fs, "inner_no_versions") {
			if vCompressed {
				// keep the outer valid (it must offer 1.3 itself): do not compress here
				tp.RunLen = 0
				tp.RunStart = 0
				// the outer list still carries the formerly compressed extensions: harmless
			}
			vi = inner.Find(hello.ExtSupportedVersions)
			if hasFault(fs, "inner_tls12_only") {
				vs := [][]uint16{{0x0303}, {0x0303, 0x0302}, {0x0301}, {0x7a7a & 0x0303, 0x0303}}[rapid.IntRange(0, 3).Draw(t, "lowvers")]
				inner.Exts[vi].Data = hello.VersionsExt(vs)
				desc = append(desc, fmt.Sprintf("inner_tls12_only%v", vs))
			} else {
				if vi < tp.RunStart {
					tp.RunStart--
				}
				inner.Exts = append(inner.Exts[:vi], inner.Exts[vi+1:]...)
				desc = append(desc, "inner_no_versions")
			}
		}
		if tp.RunStart+tp.RunLen > len(inner.Exts) {
			tp.RunLen = len(inner.Exts) - tp.RunStart
			if tp.RunLen < 0 {
				tp.RunStart, tp.RunLen = 0, 0
			}
		}
		// make sure the outer hello still offers TLS 1.3 on its own
		if tp.Outer.Find(hello.ExtSupportedVersions) < 0 {
			tp.Outer.Exts = append(tp.Outer.Exts, hello.Ext{Type: hello.ExtSupportedVersions, Data: hello.VersionsExt([]uint16{0x0304})})
		}
		// --- stage 2: marker faults (need a marker: force a run if necessary)
		comp := hello.Compress(inner, tp.RunStart, tp.RunLen)
		needMarker := false
		for _, f := range fs {
			if strings.HasPrefix(f.name, "oe_") {
				needMarker = true
			}
		}
		if needMarker {
			mi := comp.Find(hello.ExtOuterExtensions)
			var types []uint16
			if mi < 0 {
				// insert an (initially empty) marker at a drawn position
				mi = uniform(t, "marker_pos", len(comp.Exts)+1)
				if last := len(comp.Exts) - 1; last >= 0 && comp.Exts[last].Type == hello.ExtPSK && mi > last {
					mi = last
				}
				exts := append([]hello.Ext{}, comp.Exts[:mi]...)
				exts = append(exts, hello.MarkerExt(nil))
				exts = append(exts, comp.Exts[mi:]...)
				comp.Exts = exts
			} else {
				for _, e := range inner.Exts[tp.RunStart : tp.RunStart+tp.RunLen] {
					types = append(types, e.Type)
				}
			}
			// outer extension types usable as extra references (not ECH, not already referenced)
			inOuter := func(ty uint16) bool { return tp.Outer.Find(ty) >= 0 }
			mk := func(ts []uint16) []byte { return hello.MarkerExt(ts).Data }
			switch {
			case hasFault(fs, "oe_list_odd"):
				d := mk(types)
				d = append(d, 0x12)
				d[0]++
				comp.Exts[mi].Data = d
				desc = append(desc, "oe_list_odd")
			case hasFault(fs, "oe_list_len_beyond"):
				d := mk(types)
				d[0] += byte(2 * rapid.IntRange(1, 3).Draw(t, "beyond"))
				comp.Exts[mi].Data = d
				desc = append(desc, "oe_list_len_beyond")
			case hasFault(fs, "oe_data_empty"):
				if len(types) > 0 {
					// the referenced extensions would be lost: re-add them verbatim after the marker
					exts := append([]hello.Ext{}, comp.Exts[:mi+1]...)
					exts = append(exts, inner.Exts[tp.RunStart:tp.RunStart+tp.RunLen]...)
					exts = append(exts, comp.Exts[mi+1:]...)
					comp.Exts = exts
				}
				comp.Exts[mi].Data = nil
				desc = append(desc, "oe_data_empty")
			case hasFault(fs, "oe_out_of_order"), hasFault(fs, "oe_repeated"):
				// a list of m references in outer order (a drawn subset of the referable outer
				// extensions), broken at a drawn position: two entries swapped, or one repeated later
				var cands []uint16
				for _, e := range tp.Outer.Exts {
					if e.Type != hello.ExtECH && e.Type != hello.ExtSNI {
						cands = append(cands, e.Type)
					}
				}
				ooo := hasFault(fs, "oe_out_of_order")
				if len(cands) < 2 && ooo || len(cands) < 1 {
					t.Skip("outer hello has too few referable extensions")
				}
				var list []uint16
				for _, c := range cands {
					if rapid.IntRange(0, 2).Draw(t, "ref_take") != 0 {
						list = append(list, c)
					}
				}
				for len(list) < 2 && ooo || len(list) < 1 {
					list = append([]uint16{}, cands[:min(len(cands), 2)]...)
				}
				if ooo {
					p := uniform(t, "ooo_p", len(list)-1)
					q := p + 1 + uniform(t, "ooo_q", len(list)-1-p)
					list[p], list[q] = list[q], list[p]
					desc = append(desc, fmt.Sprintf("oe_out_of_order(%d<->%d of %d)", p, q, len(list)))
				} else {
					p := uniform(t, "rep_p", len(list))
					q := p + 1 + uniform(t, "rep_q", len(list)-p)
					list = append(list[:q], append([]uint16{list[p]}, list[q:]...)...)
					desc = append(desc, fmt.Sprintf("oe_repeated(%d again at %d of %d)", p, q, len(list)))
				}
				comp.Exts[mi].Data = mk(list)
				comp = dropTypes(comp, mi, list...)
				mi = comp.Find(hello.ExtOuterExtensions)
			case hasFault(fs, "oe_absent"):
				var ty uint16
				for {
					ty = uint16(rapid.IntRange(1, 0xffff).Draw(t, "absent_type"))
					if !inOuter(ty) && ty != hello.ExtECH && ty != hello.ExtOuterExtensions && comp.Find(ty) < 0 {
						break
					}
				}
				pos := uniform(t, "absent_pos", len(types)+1)
				ts := append(append(append([]uint16{}, types[:pos]...), ty), types[pos:]...)
				comp.Exts[mi].Data = mk(ts)
				desc = append(desc, fmt.Sprintf("oe_absent(%#x@%d)", ty, pos))
			case hasFault(fs, "oe_names_ech"), hasFault(fs, "oe_names_marker"):
				ty := uint16(hello.ExtECH)
				n := "oe_names_ech"
				if hasFault(fs, "oe_names_marker") {
					ty, n = hello.ExtOuterExtensions, "oe_names_marker"
				}
				pos := uniform(t, "names_pos", len(types)+1)
				ts := append(append(append([]uint16{}, types[:pos]...), ty), types[pos:]...)
				comp.Exts[mi].Data = mk(ts)
				desc = append(desc, fmt.Sprintf("%s@%d", n, pos))
			case hasFault(fs, "oe_marker_twice"):
				// split the references over two markers (second may be empty)
				cut := uniform(t, "twice_cut", len(types)+1)
				comp.Exts[mi].Data = mk(types[:cut])
				pos := mi + 1 + uniform(t, "twice_pos", len(comp.Exts)-mi)
				if last := len(comp.Exts) - 1; comp.Exts[last].Type == hello.ExtPSK && pos > last {
					pos = last
				}
				if pos <= mi {
					pos = mi + 1
				}
				exts := append([]hello.Ext{}, comp.Exts[:pos]...)
				exts = append(exts, hello.MarkerExt(types[cut:]))
				exts = append(exts, comp.Exts[pos:]...)
				comp.Exts = exts
				desc = append(desc, fmt.Sprintf("oe_marker_twice(cut %d pos %d)", cut, pos))
			}
		}
		// --- stage 3: padding
		pad := make([]byte, tp.Pad)
		if hasFault(fs, "padding_nonzero") {
			if len(pad) == 0 {
				pad = make([]byte, rapid.IntRange(1, 64).Draw(t, "forced_pad"))
			}
			p := uniform(t, "pad_pos", len(pad))
			pad[p] = byte(1 + uniform(t, "pad_val", 255))
			desc = append(desc, fmt.Sprintf("padding_nonzero@%d/%d", p, len(pad)))
		}
		// --- stage 4: encoded inner truncation
		encoded := hello.Encode(comp, pad)
		if hasFault(fs, "inner_truncated") {
			body := hello.Encode(comp, nil)
			noExt := 2 + 32 + 1 + 2 + len(comp.Suites) + 1 + len(comp.Compression)
			k := uniform(t, "inner_cut", len(body))
			if k == noExt {
				k++
			}
			if k >= len(body) {
				k = len(body) - 1
			}
			encoded = body[:k]
			desc = append(desc, fmt.Sprintf("inner_truncated@%d/%d", k, len(body)))
		}
		// --- stage 5: outer pre-seal faults
		outer := tp.Outer.Clone()
		if hasFault(fs, "outer_sni_mismatch") {
			i := outer.Find(hello.ExtSNI)
			other := hello.GenName(t, "other_sni", 253)
			if other == pub {
				other = "x" + other
				if len(other) > 253 {
					other = other[:200]
				}
			}
			outer.Exts[i].Data = hello.SNIExt(other)
			c04OtherSNI = other
			desc = append(desc, "outer_sni_mismatch")
		}
		if hasFault(fs, "outer_sni_absent") {
			i := outer.Find(hello.ExtSNI)
			outer.Exts = append(outer.Exts[:i], outer.Exts[i+1:]...)
			desc = append(desc, "outer_sni_absent")
		}
		if hasFault(fs, "outer_has_outer_extensions") {
			pos := uniform(t, "ohm_pos", len(outer.Exts)+1)
			var ts []uint16
			if rapid.Bool().Draw(t, "ohm_nonempty") {
				ts = []uint16{outer.Exts[uniform(t, "ohm_ref", len(outer.Exts))].Type}
			}
			marker := hello.MarkerExt(ts)
			what := "outer_has_outer_extensions"
			if ts == nil && rapid.Bool().Draw(t, "ohm_zero_length_body") {
				marker.Data = nil // the extension is there, with no extension_data at all
				what = "outer_has_outer_extensions(zero-length body)"
			}
			exts := append([]hello.Ext{}, outer.Exts[:pos]...)
			exts = append(exts, marker)
			exts = append(exts, outer.Exts[pos:]...)
			outer.Exts = exts
			desc = append(desc, fmt.Sprintf("%s@%d", what, pos))
		}
		suite := key.Suites[rapid.IntRange(0, len(key.Suites)-1).Draw(t, "suite")]
		sl, err := hello.NewSealer(key.Config, key.Priv.PublicKey().Bytes(), suite, key.ID)
		if err != nil {
			t.Fatalf("harness: %v", err)
		}
		msg, err := sl.SealOuter(outer, encoded, true)
		if err != nil {
			t.Fatalf("harness: %v", err)
		}
		if len(msg) > 16384 {
			t.Skip("too big")
		}
		// --- stage 6: post-seal faults
		if hasFault(fs, "outer_ech_type_inner") || hasFault(fs, "ech_type_unknown") {
			i := outer.Find(hello.ExtECH)
			if hasFault(fs, "outer_ech_type_inner") {
				if rapid.Bool().Draw(t, "inner_bare") {
					outer.Exts[i].Data = []byte{1}
				} else {
					outer.Exts[i].Data[0] = 1
				}
				desc = append(desc, "outer_ech_type_inner")
				if len(fs) == 1 {
					// the rule does not depend on the versions the outer hello offers
					switch rapid.IntRange(0, 3).Draw(t, "inner_outer_versions") {
					case 1:
						if vi := outer.Find(hello.ExtSupportedVersions); vi >= 0 {
							outer.Exts = append(outer.Exts[:vi], outer.Exts[vi+1:]...)
							desc = append(desc, "outer_no_supported_versions")
						}
					case 2:
						if vi := outer.Find(hello.ExtSupportedVersions); vi >= 0 {
							outer.Exts[vi].Data = hello.VersionsExt([]uint16{0x0303, 0x0302})
							desc = append(desc, "outer_tls12_only")
						}
					}
				}
			} else {
				ty := byte(rapid.IntRange(2, 255).Draw(t, "ech_type"))
				outer.Exts[i].Data[0] = ty
				desc = append(desc, fmt.Sprintf("ech_type_unknown(%d)", ty))
			}
			msg = outer.Message()
		}
		if hasFault(fs, "outer_has_outer_extensions") && len(fs) == 1 && rapid.IntRange(0, 2).Draw(t, "ohm_undecryptable") == 0 {
			// the rule is about the outer hello as such: it holds whether or not a key opens the payload
			i := outer.Find(hello.ExtECH)
			switch rapid.IntRange(0, 1).Draw(t, "ohm_undecryptable_how") {
			case 0:
				outer.Exts[i].Data[5] ^= byte(1 + uniform(t, "ohm_idflip", 255)) // config id nobody holds
			default:
				d := outer.Exts[i].Data
				d[len(d)-1] ^= 0x01 // payload no longer authentic
			}
			msg = outer.Message()
			desc = append(desc, "ech_payload_not_opened_by_any_key")
		}
		if hasFault(fs, "outer_ech_ext_empty_body") {
			i := outer.Find(hello.ExtECH)
			outer.Exts[i].Data = nil
			msg = outer.Message()
			desc = append(desc, "outer_ech_ext_empty_body")
		}
		if hasFault(fs, "outer_truncated") {
			body := msg[4:]
			noExt := 2 + 32 + 1 + len(outer.SessionID) + 2 + len(outer.Suites) + 1 + len(outer.Compression)
			k := uniform(t, "outer_cut", len(body))
			if k == noExt {
				k++
			}
			msg = hello.Msg(1, body[:k])
			desc = append(desc, fmt.Sprintf("outer_truncated@%d/%d", k, len(body)))
		}
		// --- stage 7: record level
		rec0 := hello.Record(22, 0x0303, msg)
		if hasFault(fs, "record_not_handshake") {
			ct := []byte{20, 21, 23, 24, 0, 255}[uniform(t, "ctype", 6)]
			rec0[0] = ct
			desc = append(desc, fmt.Sprintf("record_not_handshake(%d)", ct))
		}
		if hasFault(fs, "msg_not_client_hello") {
			mt := []byte{0, 2, 4, 8, 11, 20, 254}[uniform(t, "mtype", 7)]
			rec0[5] = mt
			desc = append(desc, fmt.Sprintf("msg_not_client_hello(%d)", mt))
		}
		record = rec0

		seen := map[string]bool{}
		for _, f := range fs {
			if !seen[f.class] {
				classes = append(classes, f.class)
				seen[f.class] = true
			}
			cl = append(cl, "fault:"+f.name)
		}
		if len(fs) > 1 {
			cl = append(cl, "multi_fault")
		}
	}
	return
}

// c04OtherSNI is the server name c04Build put into the outer hello for the
// outer_sni_mismatch fault ("" when the fault is not present).
var c04OtherSNI string

func TestC04(t *testing.T) {
	rec := ev.Get("C04")
	rec.Rule("valid sealed tuple (C03 generator) plus 1..3 injected rule violations at drawn positions (23 fault kinds over draft 5.1/7/7.1, truncation of the outer hello and of the decrypted inner at every offset, wrong record/message type); oracle: error class in the injected faults' classes, nothing readable, exactly one matching fatal alert then Close on the transport. distinct = (fault kinds, positions); every case is non-trivial")
	var m []string
	for _, f := range c04Faults {
		m = append(m, "fault:"+f.name)
	}
	m = append(m, "multi_fault", "keyless_server", "outer_sni_names_a_sibling_key")
	rec.Mandatory(m...)
	rapid.Check(t, func(t *rapid.T) {
		c04OtherSNI = ""
		record, key, classes, desc, cl := c04Build(t)
		keys := []*hello.Key{key}
		if c04OtherSNI != "" && rapid.Bool().Draw(t, "other_sni_is_a_sibling_keys_public_name") {
			// the name in the outer hello is the public name of ANOTHER key the server holds
			// under the same config id and suites (key rotation): still not the public name
			// of the config the payload was made for
			sib := drawKey(t, "sni_sibling", int(key.ID), c04OtherSNI)
			sib, _ = hello.NewKey(sib.Priv.Bytes(), key.ID, c04OtherSNI, key.Suites)
			if rapid.Bool().Draw(t, "sni_sibling_first") {
				keys = []*hello.Key{sib, key}
			} else {
				keys = []*hello.Key{key, sib}
			}
			cl = append(cl, "outer_sni_names_a_sibling_key")
		}
		rp := map[string]any{"keys": keysReplay(keys), "client_stream": hx(record), "expect": "abort", "want_error": strings.Join(classes, "|"), "want_alert": alertClass[classes[0]].desc, "faults": desc}
		tr := wire.New(record, io.EOF)
		useKeys := echKeys(keys...)
		keyless := true
		for _, d := range desc {
			keyless = keyless && (strings.HasPrefix(d, "ech_type_unknown") || strings.HasPrefix(d, "outer_has_outer_extensions"))
		}
		if keyless {
			// these two rules do not depend on the server holding keys (the statement names keys
			// only for the 'inner' type): a Conn made without keys enforces them too
			switch rapid.IntRange(0, 2).Draw(t, "keyless_server") {
			case 1:
				useKeys = nil
				rp["keys"] = []string{}
				cl = append(cl, "keyless_server")
			case 2:
				useKeys = []ech.Key{}
				rp["keys"] = []string{}
				cl = append(cl, "keyless_server")
			}
		}
		conn, cerr := newConn(context.Background(), tr, useKeys)
		got := checkAbortClasses(t, "C04", rp, tr, conn, cerr, classes)
		cl = append(cl, "alert:"+got)
		rec.Case(strings.Join(desc, "+"), true, cl, func() any {
			return map[string]any{"faults": desc, "record_len": len(record), "got_class": got}
		})
	})
}

// dropTypes removes from h (except at index keep) the extensions whose type is
// listed, so that a reference to them is not a duplicate within the inner hello.
func dropTypes(h *hello.Hello, keep int, types ...uint16) *hello.Hello {
	c := h.Clone()
	var exts []hello.Ext
	for i, e := range c.Exts {
		rm := false
		if i != keep {
			for _, ty := range types {
				if e.Type == ty && e.Type != hello.ExtECH && e.Type != hello.ExtSNI && e.Type != hello.ExtSupportedVersions {
					rm = true
				}
			}
		}
		if !rm {
			exts = append(exts, e)
		}
	}
	c.Exts = exts
	return c
}

var _ = errors.Is

// TestC04TruncSweep enumerates EVERY truncation offset of the outer hello and
// of the decrypted inner hello of generated tuples: each must be aborted with
// decode_error (plus alert and Close), never forwarded.
func TestC04TruncSweep(t *testing.T) {
	rec := ev.Get("C04")
	rapid.Check(t, func(t *rapid.T) {
		pub := hello.GenName(t, "public_name", 60)
		key := drawKey(t, "key", -1, pub)
		tp := hello.GenTuple(t, hello.TupleOpts{PublicName: pub})
		suite := key.Suites[0]
		comp := hello.Compress(tp.Inner, tp.RunStart, tp.RunLen)
		body := hello.Encode(comp, nil)
		if len(body) > 500 || len(tp.Outer.Message()) > 700 {
			t.Skip("keep the sweep small")
		}
		keys := []*hello.Key{key}
		run := func(record []byte, what string) {
			rp := map[string]any{"keys": keysReplay(keys), "client_stream": hx(record), "expect": "abort", "want_error": "decode_error", "want_alert": 50, "faults": []string{what}}
			tr := wire.New(record, io.EOF)
			conn, cerr := newConn(context.Background(), tr, echKeys(keys...))
			checkAbortClasses(t, "C04", rp, tr, conn, cerr, []string{"decode_error"})
			rec.Class("trunc_sweep_offset")
		}
		// inner: every strict prefix of the encoded inner (authentically sealed)
		noExtInner := 2 + 32 + 1 + 2 + len(comp.Suites) + 1 + len(comp.Compression)
		for k := 1; k < len(body); k++ {
			if k == noExtInner {
				continue // a hello that ends after the compression methods is a (different) valid encoding
			}
			sl, err := hello.NewSealer(key.Config, key.Priv.PublicKey().Bytes(), suite, key.ID)
			if err != nil {
				t.Fatalf("harness: %v", err)
			}
			o := tp.Outer.Clone()
			m, err := sl.SealOuter(o, body[:k], true)
			if err != nil {
				t.Fatalf("harness: %v", err)
			}
			run(hello.Record(22, 0x0303, m), fmt.Sprintf("inner_truncated@%d/%d", k, len(body)))
		}
		// outer: every strict prefix of the sealed outer body
		sl, _ := hello.NewSealer(key.Config, key.Priv.PublicKey().Bytes(), suite, key.ID)
		o := tp.Outer.Clone()
		m, err := sl.SealOuter(o, hello.Encode(comp, make([]byte, tp.Pad%32)), true)
		if err != nil {
			t.Fatalf("harness: %v", err)
		}
		ob := m[4:]
		noExtOuter := 2 + 32 + 1 + len(o.SessionID) + 2 + len(o.Suites) + 1 + len(o.Compression)
		for k := 0; k < len(ob); k++ {
			if k == noExtOuter {
				continue
			}
			run(hello.Record(22, 0x0303, hello.Msg(1, ob[:k])), fmt.Sprintf("outer_truncated@%d/%d", k, len(ob)))
		}
		rec.Class("trunc_sweep_hello")
	})
}
