package props

import (
	"bytes"
	"context"
	"fmt"
	"io"
	"slices"
	"testing"

	"pgregory.net/rapid"

	"verif/harness/ev"
	"verif/harness/hello"
	"verif/harness/wire"
)

// sealedCase is a fully concrete accepted-ECH case.
type sealedCase struct {
	Key       *hello.Key
	Tuple     *hello.Tuple
	Suite     hello.Suite
	OuterMsg  []byte
	Record    []byte
	WantInner []byte // expected inner handshake message
	Sealer    *hello.Sealer
	RecVer    uint16
}

// drawSealed draws a valid (inner, outer, key, suite) tuple and seals it.
func drawSealed(t *rapid.T, big bool) *sealedCase {
	pub := hello.MixCase(t, "public_name", hello.GenName(t, "public_name", 253))
	key := drawKey(t, "key", -1, pub)
	tp := hello.GenTuple(t, hello.TupleOpts{PublicName: pub, Big: big})
	for {
		in, out := tp.Sizes()
		if in <= 16384 && out <= 16384 {
			break
		}
		if tp.Pad > 0 {
			tp.Pad = 0
			continue
		}
		t.Skip("generated hello exceeds the record limit")
	}
	suite := key.Suites[rapid.IntRange(0, len(key.Suites)-1).Draw(t, "suite")]
	sl, err := hello.NewSealer(key.Config, key.Priv.PublicKey().Bytes(), suite, key.ID)
	if err != nil {
		t.Fatalf("harness: NewSealer: %v", err)
	}
	enc := hello.Encode(hello.Compress(tp.Inner, tp.RunStart, tp.RunLen), make([]byte, tp.Pad))
	msg, err := sl.SealOuter(tp.Outer, enc, true)
	if err != nil {
		t.Fatalf("harness: SealOuter: %v", err)
	}
	ver := rapid.SampledFrom([]uint16{0x0301, 0x0303}).Draw(t, "record_version")
	return &sealedCase{Key: key, Tuple: tp, Suite: suite, OuterMsg: msg, Record: hello.Record(22, ver, msg),
		WantInner: hello.ExpectedInner(tp.Inner, tp.Outer).Message(), Sealer: sl, RecVer: ver}
}

func (sc *sealedCase) replay() map[string]any {
	return map[string]any{
		"keys": keysReplay([]*hello.Key{sc.Key}), "client_stream": hx(sc.Record), "expect": "accept_exact",
		"want_inner_msg": hx(sc.WantInner), "want_server_name": sc.Tuple.InnerName, "want_alpn": sc.Tuple.InnerALPN, "suite": sc.Suite,
		"run_start": sc.Tuple.RunStart, "run_len": sc.Tuple.RunLen, "pad": sc.Tuple.Pad,
		"inner_layout": hello.Layout(sc.Tuple.Inner.Exts), "outer_layout": hello.Layout(sc.Tuple.Outer.Exts),
	}
}

func (sc *sealedCase) layoutKey() string {
	// positions of the run in inner, positions of the compressed extensions in outer
	var pos []int
	j := 0
	run := sc.Tuple.Inner.Exts[sc.Tuple.RunStart : sc.Tuple.RunStart+sc.Tuple.RunLen]
	for i, e := range sc.Tuple.Outer.Exts {
		if j < len(run) && e.Type == run[j].Type {
			pos = append(pos, i)
			j++
		}
	}
	return fmt.Sprintf("in%d run%d+%d out%d pos%v pad%d sid%d", len(sc.Tuple.Inner.Exts), sc.Tuple.RunStart, sc.Tuple.RunLen,
		len(sc.Tuple.Outer.Exts), pos, sc.Tuple.Pad, len(sc.Tuple.Outer.SessionID))
}

func (sc *sealedCase) classes() []string {
	tp := sc.Tuple
	var cl []string
	cl = append(cl, fmt.Sprintf("aead%d", sc.Suite.AEAD))
	if tp.RunLen == 0 {
		cl = append(cl, "no_compression")
	} else {
		cl = append(cl, "compressed")
		if tp.RunStart == 0 {
			cl = append(cl, "run_at_first")
		}
		if tp.RunStart+tp.RunLen == len(tp.Inner.Exts) {
			cl = append(cl, "run_at_last")
		}
		if tp.RunLen == 1 {
			cl = append(cl, "run_single")
		}
		if tp.RunLen >= 3 {
			// interleaved: compressed extensions not adjacent in outer
			run := tp.Inner.Exts[tp.RunStart : tp.RunStart+tp.RunLen]
			j, last, gap := 0, -1, false
			for i, e := range tp.Outer.Exts {
				if j < len(run) && e.Type == run[j].Type {
					if last >= 0 && i != last+1 {
						gap = true
					}
					last = i
					j++
				}
			}
			if gap {
				cl = append(cl, "run3_interleaved")
			}
		}
	}
	if tp.Pad == 0 {
		cl = append(cl, "pad0")
	} else if tp.Pad >= 256 {
		cl = append(cl, "pad_ge256")
	}
	if len(tp.Outer.SessionID) == 0 {
		cl = append(cl, "sid_empty")
	}
	if len(sc.WantInner) >= 12000 {
		cl = append(cl, "inner_ge12k")
	}
	if len(sc.OuterMsg) >= 12000 {
		cl = append(cl, "outer_ge12k")
	}
	if len(tp.InnerName) >= 200 {
		cl = append(cl, "name_ge200")
	}
	return cl
}

// checkAcceptedExact asserts the C03 oracle for one sealed case under keys.
// beforeFirstRead, when set, runs once between NewConn and the first Read of the
// next checkAcceptedExact call.
var beforeFirstRead func()

func checkAcceptedExact(t ev.Failer, prop string, sc *sealedCase, tr *wire.Conn, keys []*hello.Key) {
	snap := keySnapshot(keys)
	c, err := newConn(context.Background(), tr, echKeys(keys...))
	if keysChanged(keys, snap) {
		ev.Violation(t, prop, sc.replay(), "NewConn modified the key configs it was given (the application reuses them for its next connections)")
	}
	if err != nil {
		ev.Violation(t, prop, sc.replay(), "valid ECH hello not accepted: NewConn error: %v", err)
	}
	if !c.ECHAccepted() {
		ev.Violation(t, prop, sc.replay(), "valid ECH hello not accepted (passed through)")
	}
	if h := beforeFirstRead; h != nil {
		beforeFirstRead = nil
		h() // the server is busy with other connections between accepting this one and relaying it
	}
	var got []byte
	if e := guard(func() error { var e error; got, e = readOneRecord(c); return e }); e != nil {
		ev.Violation(t, prop, sc.replay(), "reading the first record failed: %v", e)
	}
	want := hello.Record(22, 0x0303, sc.WantInner)
	if !sameRecord(got, want) {
		ev.Violation(t, prop, map[string]any{"case": sc.replay(), "got": hx(got)}, "reconstructed inner differs from the ClientHelloInner the client committed to (got %d bytes, want %d)", len(got), len(want))
	}
	if c.ServerName() != sc.Tuple.InnerName {
		ev.Violation(t, prop, sc.replay(), "ServerName()=%q want %q", c.ServerName(), sc.Tuple.InnerName)
	}
	if !slices.Equal(c.ALPNProtos(), sc.Tuple.InnerALPN) && !(len(c.ALPNProtos()) == 0 && len(sc.Tuple.InnerALPN) == 0) {
		ev.Violation(t, prop, sc.replay(), "ALPNProtos()=%q want %q", c.ALPNProtos(), sc.Tuple.InnerALPN)
	}
	// what the accessors return belongs to the caller: editing it (sorting, filtering in
	// place, appending) changes nothing about the connection
	p1 := c.ALPNProtos()
	for i := range p1 {
		p1[i] = "edited-by-caller"
	}
	_ = append(p1[:0], "x", "y", "z")
	if p2 := c.ALPNProtos(); !slices.Equal(p2, sc.Tuple.InnerALPN) && !(len(p2) == 0 && len(sc.Tuple.InnerALPN) == 0) {
		ev.Violation(t, prop, sc.replay(), "ALPNProtos()=%q after the caller edited the slice returned by an earlier call, want %q", p2, sc.Tuple.InnerALPN)
	}
}

func TestC03(t *testing.T) {
	rec := ev.Get("C03")
	rec.Rule("rapid draws inner extension list (SNI, ALPN, versions, ECH-inner, 0..12 free extensions, optional PSK last, permuted), a contiguous compressed run, an outer list containing the run as an order-preserving subsequence interleaved with 2..12 outer-only extensions, padding 0..600, session id 0..32, 3 AEADs, sizes up to the record limit; sealed with crypto/hpke over a raw-byte AAD. distinct = layout signature (run position/length, positions in outer, padding, sid length); non-trivial = compressed run non-empty")
	rec.Mandatory("compressed", "run3_interleaved", "run_at_first", "run_at_last", "aead1", "aead2", "aead3", "pad0", "inner_ge12k", "encoded_inner_with_session_id")
	rapid.Check(t, func(t *rapid.T) {
		sc := drawSealed(t, true)
		rec.Case(sc.layoutKey(), sc.Tuple.RunLen > 0, sc.classes(), func() any {
			return map[string]any{"layout": sc.layoutKey(), "inner": hello.Layout(sc.Tuple.Inner.Exts), "outer": hello.Layout(sc.Tuple.Outer.Exts), "record_len": len(sc.Record)}
		})
		withDebug = rapid.Bool().Draw(t, "with_debug")
		defer func() { withDebug = false }()
		if rapid.IntRange(0, 2).Draw(t, "server_builds_its_options_once") > 0 {
			defer reuseOptions()()
		}
		tr := wire.New(sc.Record, io.EOF)
		if rapid.IntRange(0, 2).Draw(t, "other_accepted_connection_before_first_read") == 0 {
			sc2 := drawSealed(t, true)
			beforeFirstRead = func() {
				c2, err := newConn(context.Background(), wire.New(sc2.Record, io.EOF), echKeys(sc2.Key))
				if err != nil || !c2.ECHAccepted() {
					ev.Violation(t, "C03", sc2.replay(), "valid ECH hello of another connection not accepted: %v", err)
				}
				if rapid.Bool().Draw(t, "other_connection_read_first") {
					got, e := readOneRecord(c2)
					if want := hello.Record(22, 0x0303, sc2.WantInner); e != nil || !sameRecord(got, want) {
						ev.Violation(t, "C03", map[string]any{"case": sc2.replay(), "got": hx(got)}, "other connection: reconstructed inner differs from its ClientHelloInner (%v)", e)
					}
				}
			}
			defer func() { beforeFirstRead = nil }()
		}
		checkAcceptedExact(t, "C03", sc, tr, []*hello.Key{sc.Key})
		// the same key material serves the application's next connection just as well
		checkAcceptedExact(t, "C03", sc, wire.New(sc.Record, io.EOF), []*hello.Key{sc.Key})
		// EncodedClientHelloInner carrying a legacy_session_id of its own (section 5.1 says
		// it is empty): the hello is refused, or the backend still gets ClientHelloOuter's
		// session id - never the stray one
		if rapid.IntRange(0, 3).Draw(t, "encoded_inner_with_sid") == 0 {
			sid := hello.GenBytes(t, "stray_sid", rapid.IntRange(1, 32).Draw(t, "stray_sid_len"))
			if bytes.Equal(sid, sc.Tuple.Outer.SessionID) {
				sid[0] ^= 1
			}
			sl, err := hello.NewSealer(sc.Key.Config, sc.Key.Priv.PublicKey().Bytes(), sc.Suite, sc.Key.ID)
			if err != nil {
				t.Fatalf("harness: %v", err)
			}
			o := sc.Tuple.Outer.Clone()
			m, err := sl.SealOuter(o, hello.EncodeWithSessionID(hello.Compress(sc.Tuple.Inner, sc.Tuple.RunStart, sc.Tuple.RunLen), sid, make([]byte, sc.Tuple.Pad)), true)
			if err != nil {
				t.Fatalf("harness: %v", err)
			}
			if len(m) <= 16384 {
				r := hello.Record(22, sc.RecVer, m)
				rp := map[string]any{"keys": keysReplay([]*hello.Key{sc.Key}), "client_stream": hx(r), "stray_session_id": hx(sid)}
				c, e := newConn(context.Background(), wire.New(r, io.EOF), echKeys(sc.Key))
				if isPanic(e) {
					ev.Violation(t, "C03", rp, "panic: %v", e)
				}
				if e == nil && c.ECHAccepted() {
					got, e2 := readOneRecord(c)
					if e2 != nil || !sameRecord(got, hello.Record(22, 0x0303, sc.WantInner)) {
						ev.Violation(t, "C03", map[string]any{"case": rp, "got": hx(got)}, "EncodedClientHelloInner with a session id of its own: the forwarded hello is not ClientHelloInner with ClientHelloOuter's legacy_session_id (err=%v)", e2)
					}
				}
				rec.Class("encoded_inner_with_session_id")
			}
		}
	})
}
