package props

import (
	"bytes"
	"crypto/sha256"
	"fmt"
	"net"
	"testing"

	"github.com/c2FmZQ/ech"
	"github.com/c2FmZQ/ech/dns"
	"pgregory.net/rapid"

	"verif/harness/dnsfx"
	"verif/harness/ev"
	"verif/harness/hello"
)

const sentinelStr = "\x00SENTINEL"

// spareStrings returns a slice of len(v) whose spare capacity holds sentinels.
func spareStrings(v []string, spare int) []string {
	s := make([]string, len(v), len(v)+spare)
	copy(s, v)
	full := s[:cap(s)]
	for i := len(v); i < len(full); i++ {
		full[i] = sentinelStr
	}
	return s
}

func spareIPs(v []net.IP, spare int) []net.IP {
	s := make([]net.IP, len(v), len(v)+spare)
	copy(s, v)
	full := s[:cap(s)]
	for i := len(v); i < len(full); i++ {
		full[i] = net.IP{0xde, 0xad, 0xbe, 0xef}
	}
	return s
}

func spareBytes(v []byte, spare int) []byte {
	if v == nil {
		return nil
	}
	s := make([]byte, len(v), len(v)+spare)
	copy(s, v)
	full := s[:cap(s)]
	for i := len(v); i < len(full); i++ {
		full[i] = 0xa5
	}
	return s
}

// snapshot renders a result including the spare capacity of every slice.
func snapshotResult(r ech.ResolveResult) string {
	var b bytes.Buffer
	fmt.Fprintf(&b, "port=%d\n", r.Port)
	ips := func(l []net.IP) {
		for _, ip := range l[:cap(l)] {
			fmt.Fprintf(&b, "%x/%d ", []byte(ip[:cap(ip)]), len(ip))
		}
		fmt.Fprintf(&b, "len=%d\n", len(l))
	}
	ips(r.Address)
	for _, h := range r.HTTPS[:cap(r.HTTPS)] {
		fmt.Fprintf(&b, "H %d %q nda=%v port=%d alpn=%q len=%d ech=%x/%d\n", h.Priority, h.Target, h.NoDefaultALPN, h.Port, h.ALPN[:cap(h.ALPN)], len(h.ALPN), h.ECH[:cap(h.ECH)], len(h.ECH))
		ips(h.IPv4Hint)
		ips(h.IPv6Hint)
	}
	fmt.Fprintf(&b, "nhttps=%d\n", len(r.HTTPS))
	for _, k := range sortedIPKeys(r.Additional) {
		fmt.Fprintf(&b, "A %q: ", k)
		ips(r.Additional[k])
	}
	return b.String()
}

func sortedIPKeys(m map[string][]net.IP) []string {
	set := map[string]bool{}
	for k := range m {
		set[k] = true
	}
	return dnsfx.SortedKeys(set)
}

func genIP(t *rapid.T, label string, pool *[]net.IP) net.IP {
	if len(*pool) > 0 && rapid.IntRange(0, 2).Draw(t, label+"_reuse") == 0 {
		return append(net.IP{}, (*pool)[rapid.IntRange(0, len(*pool)-1).Draw(t, label+"_pick")]...)
	}
	var ip net.IP
	switch rapid.IntRange(0, 9).Draw(t, label+"_kind") {
	case 0:
		ip = net.IP(hello.GenBytes(t, label+"_bad", rapid.SampledFrom([]int{0, 1, 3, 5, 15, 17}).Draw(t, label+"_badlen")))
	case 1:
		// an IPv4-mapped IPv6 address in its 16-byte form (what an AAAA record or net.ParseIP
		// yields): an IPv6 address for the family filter, distinct from the 4-byte spelling
		ip = net.IP{0, 0, 0, 0, 0, 0, 0, 0, 0, 0, 0xff, 0xff, 10, 0, 0, byte(rapid.IntRange(1, 6).Draw(t, label+"_v4m"))}
	case 2, 3, 4:
		ip = net.IP{10, 0, 0, byte(rapid.IntRange(1, 6).Draw(t, label+"_v4"))}
	default:
		ip = net.IP{0x20, 1, 0xd, 0xb8, 0, 0, 0, 0, 0, 0, 0, 0, 0, 0, 0, byte(rapid.IntRange(1, 6).Draw(t, label+"_v6"))}
	}
	*pool = append(*pool, ip)
	return ip
}

// GenResult draws a ResolveResult.
func genResult(t *rapid.T) (ech.ResolveResult, []string) {
	var cl []string
	var pool []net.IP
	r := ech.ResolveResult{Port: uint16(rapid.SampledFrom([]int{443, 80, 8443, 1}).Draw(t, "port"))}
	var addr []net.IP
	for i, n := 0, rapid.IntRange(0, 6).Draw(t, "naddr"); i < n; i++ {
		addr = append(addr, genIP(t, "addr", &pool))
	}
	r.Address = spareIPs(addr, rapid.IntRange(0, 3).Draw(t, "addr_spare"))
	// target names are opaque keys of Additional; "t3.example." is one written in absolute
	// form (a ResolveResult may be built by hand or by another resolver)
	targets := []string{"", "t1.example", "t2.example", "missing.example", "t3.example."}
	nh := rapid.IntRange(0, 6).Draw(t, "nhttps")
	// optionally one shared backing array for the ALPN lists of all records
	shared := nh >= 2 && rapid.IntRange(0, 2).Draw(t, "shared_alpn") == 0
	var sharedBase []string
	var hs []dns.HTTPS
	for i := 0; i < nh; i++ {
		h := dns.HTTPS{Priority: uint16(rapid.IntRange(0, 4).Draw(t, "prio"))}
		h.Target = targets[rapid.IntRange(0, len(targets)-1).Draw(t, "target")]
		h.Port = uint16(rapid.SampledFrom([]int{0, 0, 443, 80, 8443, 9000}).Draw(t, "hport"))
		h.NoDefaultALPN = rapid.IntRange(0, 3).Draw(t, "nda") == 0
		var alpn []string
		for j, n := 0, rapid.IntRange(0, 7).Draw(t, "nalpn"); j < n; j++ {
			alpn = append(alpn, rapid.SampledFrom([]string{"h2", "h3", "http/1.1", "dot", "x"}).Draw(t, "alpn"))
		}
		if shared {
			start := len(sharedBase)
			sharedBase = append(sharedBase, alpn...)
			h.ALPN = sharedBase[start:len(sharedBase):len(sharedBase)] // fixed below once the base is complete
			h.ALPN = nil
			defer func(i, start, n int) {}(i, start, len(alpn))
			hs = append(hs, h)
			hs[len(hs)-1].ALPN = alpn // temporary; re-sliced below
		} else {
			h.ALPN = spareStrings(alpn, rapid.IntRange(0, 3).Draw(t, "alpn_spare"))
			hs = append(hs, h)
		}
		hh := &hs[len(hs)-1]
		var v4, v6 []net.IP
		for j, n := 0, rapid.IntRange(0, 2).Draw(t, "nv4"); j < n; j++ {
			v4 = append(v4, net.IP{192, 0, 2, byte(rapid.IntRange(1, 4).Draw(t, "hint4"))})
		}
		for j, n := 0, rapid.IntRange(0, 2).Draw(t, "nv6"); j < n; j++ {
			v6 = append(v6, net.IP{0x20, 1, 0xd, 0xb8, 0xff, 0, 0, 0, 0, 0, 0, 0, 0, 0, 0, byte(rapid.IntRange(1, 4).Draw(t, "hint6"))})
		}
		hh.IPv4Hint, hh.IPv6Hint = spareIPs(v4, 1), spareIPs(v6, 1)
		switch rapid.IntRange(0, 3).Draw(t, "ech") {
		case 0:
		case 1:
			hh.ECH = []byte{}
		default:
			hh.ECH = spareBytes(hello.GenBytes(t, "echb", rapid.IntRange(1, 20).Draw(t, "echl")), 2)
		}
	}
	if shared {
		// lay all ALPN lists out back to back in one array: appending to one
		// list would overwrite the first element of the next
		total := 0
		for _, h := range hs {
			total += len(h.ALPN)
		}
		base := make([]string, 0, total+2)
		for i := range hs {
			start := len(base)
			base = append(base, hs[i].ALPN...)
			hs[i].ALPN = base[start:len(base)]
		}
		full := base[:cap(base)]
		for i := len(base); i < len(full); i++ {
			full[i] = sentinelStr
		}
		// re-slice with the shared capacity
		off := 0
		for i := range hs {
			n := len(hs[i].ALPN)
			hs[i].ALPN = full[off : off+n]
			off += n
		}
		cl = append(cl, "shared_backing_array")
	}
	r.HTTPS = hs
	if rapid.IntRange(0, 4).Draw(t, "additional") != 0 {
		r.Additional = map[string][]net.IP{}
		for _, tn := range []string{"t1.example", "t2.example", "t3.example."} {
			if rapid.IntRange(0, 3).Draw(t, "has_"+tn) != 0 {
				var l []net.IP
				for i, n := 0, rapid.IntRange(0, 4).Draw(t, "nadd"); i < n; i++ {
					l = append(l, genIP(t, "add", &pool))
				}
				r.Additional[tn] = spareIPs(l, 1)
			}
		}
	}
	return r, cl
}

func TestC15(t *testing.T) {
	rec := ev.Get("C15")
	rec.Rule("ResolveResults with 0..6 HTTPS records (priority 0 included, target empty / in Additional / missing, ports 0/80/443/other, hints, 0..7 ALPN entries incl. http/1.1, no-default-alpn, ECH nil/empty/bytes), 0..6 addresses (4- and 16-byte, duplicates, invalid lengths), overlapping Additional maps, Port 80/443/other; every slice has spare capacity filled with sentinels and ALPN lists sometimes share one backing array; networks tcp/tcp4/tcp6/udp/udp4/udp6; early stop after k items. Oracle: reference Targets (pure function from the property text) element-wise (address:port, ECH incl. nil-ness, ALPN as a set), early stop = prefix, two enumerations equal (also when the same iter.Seq value is ranged over again after an early stop), no duplicate address:port, deep snapshot (incl. spare capacity) unchanged. distinct = result hash x network; non-trivial = 2+ service-mode records or a duplicate address")
	rec.Mandatory("hint_fallback", "port80_upgrade", "target_missing", "shared_backing_array", "net:tcp", "net:tcp4", "net:tcp6", "net:udp", "net:udp4", "net:udp6", "early_stop", "plain_fallback", "alias_ignored", "seq_reused")
	rapid.Check(t, func(t *rapid.T) {
		r, cl := genResult(t)
		network := rapid.SampledFrom([]string{"tcp", "tcp4", "tcp6", "udp", "udp4", "udp6"}).Draw(t, "network")
		cl = append(cl, "net:"+network)
		before := snapshotResult(r)
		want := dnsfx.RefTargets(r, network)
		rp := map[string]any{"result": before, "network": network}
		collect := func(limit int) []ech.Target {
			var got []ech.Target
			e := guard(func() error {
				for tg := range r.Targets(network) {
					got = append(got, tg)
					if limit >= 0 && len(got) >= limit {
						break
					}
				}
				return nil
			})
			if e != nil {
				ev.Violation(t, "C15", rp, "Targets panicked: %v", e)
			}
			return got
		}
		got := collect(-1)
		compare := func(got []ech.Target, want []dnsfx.RefTarget, what string) {
			if len(got) != len(want) {
				ev.Violation(t, "C15", rp, "%s: %d targets, reference says %d (got %v)", what, len(got), len(want), got)
			}
			seen := map[string]bool{}
			for i := range got {
				if got[i].Address != want[i].Addr {
					ev.Violation(t, "C15", rp, "%s: target %d is %v, reference says %v", what, i, got[i].Address, want[i].Addr)
				}
				if !bytes.Equal(got[i].ECH, want[i].ECH) || (got[i].ECH == nil) != (want[i].ECH == nil) {
					ev.Violation(t, "C15", rp, "%s: target %d (%v) carries ECH %x (nil=%v), its record has %x (nil=%v)", what, i, got[i].Address, got[i].ECH, got[i].ECH == nil, want[i].ECH, want[i].ECH == nil)
				}
				gs := map[string]bool{}
				for _, a := range got[i].ALPN {
					gs[a] = true
				}
				if fmt.Sprint(dnsfx.SortedKeys(gs)) != fmt.Sprint(dnsfx.SortedKeys(want[i].ALPN)) {
					ev.Violation(t, "C15", rp, "%s: target %d (%v) has ALPN set %v, reference says %v", what, i, got[i].Address, dnsfx.SortedKeys(gs), dnsfx.SortedKeys(want[i].ALPN))
				}
				if seen[got[i].Address.String()] {
					ev.Violation(t, "C15", rp, "%s: duplicate target %v", what, got[i].Address)
				}
				seen[got[i].Address.String()] = true
			}
		}
		compare(got, want, "full enumeration")
		if after := snapshotResult(r); after != before {
			ev.Violation(t, "C15", map[string]any{"before": before, "after": after, "network": network}, "enumerating the targets modified the result: %s", firstDiff(after, before))
		}
		again := collect(-1)
		compare(again, want, "second enumeration")
		if len(want) > 0 {
			k := 1 + uniform(t, "stop", len(want))
			compare(collect(k), want[:k], fmt.Sprintf("enumeration stopped after %d", k))
			cl = append(cl, "early_stop")
		}
		// one iter.Seq value ranged over several times (stopped early, then in full,
		// twice): every enumeration starts afresh
		{
			var seq func(func(ech.Target) bool)
			if e := guard(func() error { seq = r.Targets(network); return nil }); e != nil {
				ev.Violation(t, "C15", rp, "Targets panicked: %v", e)
			}
			run := func(limit int) []ech.Target {
				var got []ech.Target
				if e := guard(func() error {
					seq(func(tg ech.Target) bool {
						got = append(got, tg)
						return !(limit >= 0 && len(got) >= limit)
					})
					return nil
				}); e != nil {
					ev.Violation(t, "C15", rp, "Targets panicked: %v", e)
				}
				return got
			}
			if len(want) > 0 {
				k := 1 + uniform(t, "restop", len(want))
				compare(run(k), want[:k], fmt.Sprintf("same sequence value, enumeration stopped after %d", k))
			}
			compare(run(-1), want, "same sequence value, enumerated again in full")
			compare(run(-1), want, "same sequence value, enumerated a third time")
			cl = append(cl, "seq_reused")
		}
		if after := snapshotResult(r); after != before {
			ev.Violation(t, "C15", map[string]any{"before": before, "after": after, "network": network}, "enumerating the targets modified the result: %s", firstDiff(after, before))
		}
		svc := 0
		for _, h := range r.HTTPS {
			if h.Priority == 0 {
				cl = append(cl, "alias_ignored")
				continue
			}
			svc++
			if h.Target == "" && len(r.Address) == 0 && len(h.IPv4Hint)+len(h.IPv6Hint) > 0 {
				cl = append(cl, "hint_fallback")
			}
			if h.Target != "" && r.Additional[h.Target] == nil {
				cl = append(cl, "target_missing")
			}
			if r.Port == 80 && h.Port == 0 {
				cl = append(cl, "port80_upgrade")
			}
		}
		if len(want) > 0 && want[0].Rec == -1 {
			cl = append(cl, "plain_fallback")
		}
		dup := false
		seenIP := map[string]bool{}
		for _, a := range r.Address {
			if seenIP[string(a)] {
				dup = true
			}
			seenIP[string(a)] = true
		}
		sum := sha256.Sum256([]byte(before + network))
		rec.Case(hx(sum[:8]), svc >= 2 || dup, cl, func() any {
			var ts []string
			for _, w := range want {
				ts = append(ts, fmt.Sprintf("%v ech=%x alpn=%v rec=%d", w.Addr, w.ECH, dnsfx.SortedKeys(w.ALPN), w.Rec))
			}
			return map[string]any{"network": network, "result": before, "targets": ts}
		})
	})
}
