// Package hello is an independent ClientHello codec (RFC 8446 4.1.2) and a
// synthetic ECH client (draft-ietf-tls-esni 5, 6.1). It shares no code with
// the package under test: it is the expected-bytes oracle.
package hello

import (
	"encoding/binary"
	"errors"
	"fmt"
)

const (
	ExtSNI               = 0
	ExtALPN              = 16
	ExtPadding           = 21
	ExtPSK               = 41
	ExtSupportedVersions = 43
	ExtKeyShare          = 51
	ExtECH               = 0xfe0d
	ExtOuterExtensions   = 0xfd00
)

// Ext is one extension.
type Ext struct {
	Type uint16 `json:"type"`
	Data []byte `json:"data"`
}

// Hello is a ClientHello.
type Hello struct {
	Version     uint16 `json:"version"`
	Random      []byte `json:"random"`
	SessionID   []byte `json:"session_id"`
	Suites      []byte `json:"suites"`
	Compression []byte `json:"compression"`
	Exts        []Ext  `json:"exts"`
	NoExtBlock  bool   `json:"no_ext_block,omitempty"` // RFC 5246 hello without extensions field
}

func (h *Hello) Clone() *Hello {
	c := *h
	c.Random = append([]byte(nil), h.Random...)
	c.SessionID = append([]byte(nil), h.SessionID...)
	c.Suites = append([]byte(nil), h.Suites...)
	c.Compression = append([]byte(nil), h.Compression...)
	c.Exts = make([]Ext, len(h.Exts))
	for i, e := range h.Exts {
		c.Exts[i] = Ext{e.Type, append([]byte(nil), e.Data...)}
	}
	return &c
}

func u16(v int) []byte { return []byte{byte(v >> 8), byte(v)} }
func u24(v int) []byte { return []byte{byte(v >> 16), byte(v >> 8), byte(v)} }

// ExtBlock serialises the extension list (without the outer 2-byte length).
func ExtBlock(exts []Ext) []byte {
	var b []byte
	for _, e := range exts {
		b = append(b, u16(int(e.Type))...)
		b = append(b, u16(len(e.Data))...)
		b = append(b, e.Data...)
	}
	return b
}

// Body is the ClientHello structure without the handshake header.
func (h *Hello) Body() []byte {
	var b []byte
	b = append(b, u16(int(h.Version))...)
	b = append(b, h.Random...)
	b = append(b, byte(len(h.SessionID)))
	b = append(b, h.SessionID...)
	b = append(b, u16(len(h.Suites))...)
	b = append(b, h.Suites...)
	b = append(b, byte(len(h.Compression)))
	b = append(b, h.Compression...)
	if !h.NoExtBlock {
		eb := ExtBlock(h.Exts)
		b = append(b, u16(len(eb))...)
		b = append(b, eb...)
	}
	return b
}

// Message is the handshake message: type 1, uint24 length, body.
func (h *Hello) Message() []byte { return Msg(1, h.Body()) }

// Msg frames a handshake message.
func Msg(typ byte, body []byte) []byte {
	return append(append([]byte{typ}, u24(len(body))...), body...)
}

// Record frames one TLS record.
func Record(typ byte, ver uint16, payload []byte) []byte {
	b := []byte{typ, byte(ver >> 8), byte(ver)}
	b = append(b, u16(len(payload))...)
	return append(b, payload...)
}

// Find returns the index of the first extension of the type, or -1.
func (h *Hello) Find(typ uint16) int {
	for i, e := range h.Exts {
		if e.Type == typ {
			return i
		}
	}
	return -1
}

var ErrParse = errors.New("hello: parse error")

type rd struct {
	b   []byte
	err error
}

func (r *rd) n(k int) []byte {
	if r.err != nil || k < 0 || len(r.b) < k {
		r.err = ErrParse
		return nil
	}
	v := r.b[:k]
	r.b = r.b[k:]
	return v
}
func (r *rd) u8() int {
	v := r.n(1)
	if v == nil {
		return 0
	}
	return int(v[0])
}
func (r *rd) u16() int {
	v := r.n(2)
	if v == nil {
		return 0
	}
	return int(binary.BigEndian.Uint16(v))
}

// ParseMessage decodes a ClientHello handshake message (strict: no trailing bytes).
func ParseMessage(msg []byte) (*Hello, error) {
	if len(msg) < 4 || msg[0] != 1 {
		return nil, ErrParse
	}
	l := int(msg[1])<<16 | int(msg[2])<<8 | int(msg[3])
	if l != len(msg)-4 {
		return nil, ErrParse
	}
	return ParseBody(msg[4:])
}

// ParseBody decodes the ClientHello structure.
func ParseBody(body []byte) (*Hello, error) {
	r := &rd{b: body}
	h := &Hello{}
	h.Version = uint16(r.u16())
	h.Random = append([]byte(nil), r.n(32)...)
	h.SessionID = append([]byte{}, r.n(r.u8())...)
	h.Suites = append([]byte{}, r.n(r.u16())...)
	h.Compression = append([]byte{}, r.n(r.u8())...)
	if r.err != nil {
		return nil, r.err
	}
	if len(r.b) == 0 {
		h.NoExtBlock = true
		return h, nil
	}
	eb := &rd{b: r.n(r.u16())}
	if r.err != nil || len(r.b) != 0 {
		return nil, ErrParse
	}
	for len(eb.b) > 0 {
		t := eb.u16()
		d := eb.n(eb.u16())
		if eb.err != nil {
			return nil, ErrParse
		}
		h.Exts = append(h.Exts, Ext{uint16(t), append([]byte{}, d...)})
	}
	return h, nil
}

// SNIExt builds a server_name extension body with one host_name.
func SNIExt(name string) []byte {
	e := append([]byte{0}, u16(len(name))...)
	e = append(e, name...)
	return append(u16(len(e)), e...)
}

// ALPNExt builds an ALPN extension body.
func ALPNExt(protos []string) []byte {
	var l []byte
	for _, p := range protos {
		l = append(l, byte(len(p)))
		l = append(l, p...)
	}
	return append(u16(len(l)), l...)
}

// VersionsExt builds a supported_versions (client) extension body.
func VersionsExt(vs []uint16) []byte {
	b := []byte{byte(2 * len(vs))}
	for _, v := range vs {
		b = append(b, u16(int(v))...)
	}
	return b
}

// SNI extracts the host name of the server_name extension as the harness
// understands it ("" if absent).
func (h *Hello) SNI() string {
	i := h.Find(ExtSNI)
	if i < 0 {
		return ""
	}
	r := &rd{b: h.Exts[i].Data}
	l := &rd{b: r.n(r.u16())}
	for len(l.b) > 0 && l.err == nil {
		t := l.u8()
		n := l.n(l.u16())
		if l.err == nil && t == 0 {
			return string(n)
		}
	}
	return ""
}

// ALPN extracts the protocol list.
func (h *Hello) ALPN() []string {
	i := h.Find(ExtALPN)
	if i < 0 {
		return nil
	}
	r := &rd{b: h.Exts[i].Data}
	l := &rd{b: r.n(r.u16())}
	var out []string
	for len(l.b) > 0 && l.err == nil {
		p := l.n(l.u8())
		if l.err == nil {
			out = append(out, string(p))
		}
	}
	return out
}

// OffersTLS13 reports whether supported_versions lists 0x0304 or higher.
func (h *Hello) OffersTLS13() bool {
	i := h.Find(ExtSupportedVersions)
	if i < 0 {
		return false
	}
	d := h.Exts[i].Data
	if len(d) < 1 {
		return false
	}
	for j := 1; j+1 < len(d) && j < 1+int(d[0]); j += 2 {
		if v := binary.BigEndian.Uint16(d[j:]); v >= 0x0304 {
			return true
		}
	}
	return false
}

// ECHOuterExt is the body of an outer-type encrypted_client_hello extension.
func ECHOuterExt(kdf, aead uint16, id uint8, enc, payload []byte) []byte {
	b := []byte{0}
	b = append(b, u16(int(kdf))...)
	b = append(b, u16(int(aead))...)
	b = append(b, id)
	b = append(b, u16(len(enc))...)
	b = append(b, enc...)
	b = append(b, u16(len(payload))...)
	b = append(b, payload...)
	return b
}

func (e Ext) String() string { return fmt.Sprintf("%#04x(%d)", e.Type, len(e.Data)) }

// Layout gives a short signature of an extension list.
func Layout(exts []Ext) string {
	s := ""
	for i, e := range exts {
		if i > 0 {
			s += ","
		}
		s += fmt.Sprintf("%x:%d", e.Type, len(e.Data))
	}
	return s
}
