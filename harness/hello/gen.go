package hello

import (
	"fmt"
	"strings"

	"pgregory.net/rapid"
)

// GenLabel draws one LDH label of 1..max bytes.
func GenLabel(t *rapid.T, label string, max int) string {
	n := rapid.IntRange(1, max).Draw(t, label+"_len")
	const mid = "abcdefghijklmnopqrstuvwxyz0123456789-"
	const edge = "abcdefghijklmnopqrstuvwxyz0123456789"
	b := make([]byte, n)
	seed := rapid.Uint64().Draw(t, label+"_seed")
	for i := range b {
		seed = seed*6364136223846793005 + 1442695040888963407
		if i == 0 || i == n-1 {
			b[i] = edge[(seed>>33)%uint64(len(edge))]
		} else {
			b[i] = mid[(seed>>33)%uint64(len(mid))]
		}
	}
	return string(b)
}

// GenName draws a valid DNS host name whose total length lies in [1,maxLen]
// (maxLen <= 253), labels 1..63, no trailing dot. Lengths near the bounds are
// favoured.
func GenName(t *rapid.T, label string, maxLen int) string {
	var target int
	switch rapid.IntRange(0, 9).Draw(t, label+"_lenclass") {
	case 0:
		target = rapid.IntRange(1, 3).Draw(t, label+"_tiny")
	case 1:
		target = maxLen - rapid.IntRange(0, 2).Draw(t, label+"_nearmax")
	case 2:
		target = rapid.IntRange(200, 253).Draw(t, label+"_long")
	default:
		target = rapid.IntRange(4, 40).Draw(t, label+"_norm")
	}
	if target > maxLen {
		target = maxLen
	}
	if target < 1 {
		target = 1
	}
	var labels []string
	rem := target
	for rem > 0 {
		max := rem
		if max > 63 {
			max = 63
		}
		// leave room so that the remainder after the dot is >= 1
		l := GenLabel(t, fmt.Sprintf("%s_l%d", label, len(labels)), max)
		if rem-len(l) == 1 { // would leave a lone dot: extend or shorten
			if len(l) < 63 && len(l) < rem {
				l = l + "a"
			} else {
				l = l[:len(l)-1]
				if l == "" {
					l = "a"
				}
			}
		}
		labels = append(labels, l)
		rem -= len(l)
		if rem > 0 {
			rem-- // the dot
		}
	}
	name := strings.Join(labels, ".")
	if len(name) > maxLen {
		name = name[:maxLen]
		name = strings.TrimRight(name, ".-")
		if name == "" {
			name = "a"
		}
	}
	return sanitizeName(name)
}

// MixCase upper-cases a pseudo-random subset of the letters of a name in one
// case out of three (host names are case-insensitive but must be relayed and
// reported as sent).
func MixCase(t *rapid.T, label, name string) string {
	if rapid.IntRange(0, 2).Draw(t, label+"_mixcase") != 0 {
		return name
	}
	seed := rapid.Uint64().Draw(t, label+"_caseseed") | 1
	b := []byte(name)
	for i := range b {
		seed = seed*6364136223846793005 + 1442695040888963407
		if b[i] >= 'a' && b[i] <= 'z' && (seed>>40)&1 == 1 {
			b[i] -= 'a' - 'A'
		}
	}
	return string(b)
}

// sanitizeName makes every label start and end with a letter or digit and
// makes sure the name cannot be mistaken for an IP address literal.
func sanitizeName(name string) string {
	b := []byte(name)
	for i := range b {
		if b[i] == '-' && (i == 0 || i == len(b)-1 || b[i-1] == '.' || b[i+1] == '.') {
			b[i] = 'a'
		}
	}
	numeric := true
	for _, c := range b {
		if (c < '0' || c > '9') && c != '.' {
			numeric = false
		}
	}
	if numeric && len(b) > 0 {
		b[len(b)-1] = 'x'
	}
	return string(b)
}

var greaseTypes = []uint16{0x0a0a, 0x1a1a, 0x2a2a, 0x3a3a, 0x4a4a, 0x5a5a, 0x6a6a, 0x7a7a, 0x8a8a, 0x9a9a, 0xaaaa, 0xbaba, 0xcaca, 0xdada, 0xeaea, 0xfafa}

func u16list16(vals []uint16) []byte {
	b := u16(2 * len(vals))
	for _, v := range vals {
		b = append(b, u16(int(v))...)
	}
	return b
}

// genBytes draws n bytes cheaply (one draw) but deterministically.
func genBytes(t *rapid.T, label string, n int) []byte {
	seed := rapid.Uint64().Draw(t, label)
	b := make([]byte, n)
	for i := range b {
		seed = seed*6364136223846793005 + 1442695040888963407
		b[i] = byte(seed >> 56)
	}
	return b
}

// GenKnownExt draws a syntactically valid body for a well-known extension type.
func GenKnownExt(t *rapid.T, typ uint16, label string) []byte {
	switch typ {
	case 10, 13, 50: // supported_groups, signature_algorithms(_cert)
		pool := []uint16{0x001d, 0x0017, 0x0018, 0x0019, 0x11ec, 0x0403, 0x0804, 0x0401, 0x0503, 0x0805, 0x0807, 0x0a0a}
		n := rapid.IntRange(1, 8).Draw(t, label+"_n")
		vals := make([]uint16, n)
		for i := range vals {
			vals[i] = pool[rapid.IntRange(0, len(pool)-1).Draw(t, label+"_v")]
		}
		return u16list16(vals)
	case 11: // ec_point_formats
		return []byte{1, 0}
	case 45: // psk_key_exchange_modes
		return []byte{1, 1}
	case 51: // key_share
		n := rapid.IntRange(0, 2).Draw(t, label+"_n")
		var l []byte
		for i := 0; i < n; i++ {
			var g uint16
			var sz int
			switch rapid.IntRange(0, 3).Draw(t, label+"_g") {
			case 0:
				g, sz = 0x001d, 32
			case 1:
				g, sz = 0x0017, 65
			case 2:
				g, sz = 0x11ec, 1216
			default:
				g, sz = 0x0a0a, 1
			}
			l = append(l, u16(int(g))...)
			l = append(l, u16(sz)...)
			l = append(l, genBytes(t, label+"_k", sz)...)
		}
		return append(u16(len(l)), l...)
	case 21: // padding
		return make([]byte, rapid.IntRange(0, 64).Draw(t, label+"_n"))
	case 23, 49, 18: // extended_master_secret, post_handshake_auth, SCT: empty
		return nil
	case 27: // compress_certificate
		return []byte{2, 0, 2}
	case 28: // record_size_limit
		return []byte{0x40, 0x01}
	case 35: // session_ticket
		return genBytes(t, label+"_b", rapid.IntRange(0, 48).Draw(t, label+"_n"))
	}
	return genBytes(t, label+"_b", rapid.IntRange(0, 32).Draw(t, label+"_n"))
}

var knownTypes = []uint16{10, 13, 50, 11, 45, 51, 21, 23, 49, 18, 27, 28, 35}

// reserved types that the generator never uses for "free" extensions.
func reservedType(ty uint16) bool {
	switch ty {
	case ExtSNI, ExtALPN, ExtSupportedVersions, ExtECH, ExtOuterExtensions, ExtPSK,
		5, 17, 42, 44, 47, 48, 57, 65281, 17513, 17613, 13172, 30032:
		return true
	}
	for _, k := range knownTypes {
		if k == ty {
			return true
		}
	}
	return false
}

// GenFreeExt draws one extension whose type is not in used (and adds it).
func GenFreeExt(t *rapid.T, label string, used map[uint16]bool) Ext {
	for try := 0; ; try++ {
		var ty uint16
		var data []byte
		switch rapid.IntRange(0, 3).Draw(t, fmt.Sprintf("%s_kind%d", label, try)) {
		case 0:
			ty = knownTypes[rapid.IntRange(0, len(knownTypes)-1).Draw(t, label+"_kt")]
			if used[ty] {
				continue
			}
			data = GenKnownExt(t, ty, label)
		case 1:
			ty = greaseTypes[rapid.IntRange(0, len(greaseTypes)-1).Draw(t, label+"_gt")]
			if used[ty] {
				continue
			}
			data = genBytes(t, label+"_gb", rapid.IntRange(0, 16).Draw(t, label+"_gn"))
		default:
			ty = uint16(rapid.IntRange(58, 0xffff).Draw(t, label+"_ut"))
			if used[ty] || reservedType(ty) {
				continue
			}
			data = genBytes(t, label+"_ub", rapid.IntRange(0, 40).Draw(t, label+"_un"))
		}
		used[ty] = true
		return Ext{ty, data}
	}
}

// GenBase draws the non-extension fields.
func GenBase(t *rapid.T, label string) *Hello {
	h := &Hello{}
	h.Version = rapid.SampledFrom([]uint16{0x0303, 0x0303, 0x0303, 0x0302, 0x0301}).Draw(t, label+"_ver")
	h.Random = genBytes(t, label+"_random", 32)
	switch rapid.IntRange(0, 3).Draw(t, label+"_sidclass") {
	case 0:
		h.SessionID = []byte{}
	case 1:
		h.SessionID = genBytes(t, label+"_sid", 32)
	default:
		h.SessionID = genBytes(t, label+"_sid", rapid.IntRange(1, 32).Draw(t, label+"_sidlen"))
	}
	ns := rapid.IntRange(1, 12).Draw(t, label+"_nsuites")
	pool := []uint16{0x1301, 0x1302, 0x1303, 0xc02b, 0xc02f, 0xc02c, 0xc030, 0xcca9, 0xcca8, 0x00ff, 0x0a0a, 0x5600}
	for i := 0; i < ns; i++ {
		h.Suites = append(h.Suites, u16(int(pool[rapid.IntRange(0, len(pool)-1).Draw(t, label+"_suite")]))...)
	}
	if rapid.IntRange(0, 5).Draw(t, label+"_compclass") == 0 {
		h.Compression = genBytes(t, label+"_comp", rapid.IntRange(1, 4).Draw(t, label+"_complen"))
	} else {
		h.Compression = []byte{0}
	}
	return h
}

// GenALPN draws 0..4 protocol names of 1..255 bytes.
func GenALPN(t *rapid.T, label string) []string {
	n := rapid.IntRange(0, 4).Draw(t, label+"_n")
	pool := []string{"h2", "http/1.1", "h3", "acme-tls/1", "dot", "\x8a\x8a", "\x0a\x0a", "h3-29"} // incl. RFC 8701 reserved ids
	var out []string
	for i := 0; i < n; i++ {
		if rapid.IntRange(0, 4).Draw(t, label+"_kind") == 0 {
			out = append(out, string(genBytes(t, label+"_raw", rapid.IntRange(1, 255).Draw(t, label+"_rawlen"))))
		} else {
			out = append(out, pool[rapid.IntRange(0, len(pool)-1).Draw(t, label+"_p")])
		}
	}
	return out
}

// Tuple is a generated (inner, outer, compression layout, padding) combination.
type Tuple struct {
	Inner      *Hello // true ClientHelloInner (session id irrelevant: replaced by outer's)
	Outer      *Hello // outer hello with an empty placeholder ECH extension
	RunStart   int    // compressed run in Inner.Exts
	RunLen     int
	Pad        int
	InnerName  string
	InnerALPN  []string
	PublicName string
}

// TupleOpts steers GenTuple.
type TupleOpts struct {
	PublicName string
	InnerName  string   // "" = generate
	InnerALPN  []string // nil = generate (use []string{} for none)
	FixALPN    bool
	Big        bool // allow sizes up to the record limit
}

// GenTuple draws a valid ECH client hello pair.
func GenTuple(t *rapid.T, o TupleOpts) *Tuple {
	tp := &Tuple{PublicName: o.PublicName}
	tp.InnerName = o.InnerName
	if tp.InnerName == "" {
		tp.InnerName = MixCase(t, "inner_name", GenName(t, "inner_name", 253))
	}
	if o.FixALPN {
		tp.InnerALPN = o.InnerALPN
	} else {
		tp.InnerALPN = GenALPN(t, "inner_alpn")
	}
	inner := GenBase(t, "inner")
	inner.Version = 0x0303
	used := map[uint16]bool{}
	var exts []Ext
	exts = append(exts, Ext{ExtSNI, SNIExt(tp.InnerName)})
	if len(tp.InnerALPN) > 0 {
		exts = append(exts, Ext{ExtALPN, ALPNExt(tp.InnerALPN)})
	}
	vers := []uint16{0x0304}
	if rapid.Bool().Draw(t, "inner_v12too") {
		vers = append(vers, 0x0303)
	}
	if rapid.IntRange(0, 3).Draw(t, "inner_vgrease") == 0 {
		vers = append([]uint16{0x7a7a}, vers...)
	}
	exts = append(exts, Ext{ExtSupportedVersions, VersionsExt(vers)})
	exts = append(exts, Ext{ExtECH, []byte{1}})
	nfree := rapid.IntRange(0, 12).Draw(t, "inner_nfree")
	for i := 0; i < nfree; i++ {
		exts = append(exts, GenFreeExt(t, fmt.Sprintf("inner_free%d", i), used))
	}
	perm := rapid.Permutation(exts).Draw(t, "inner_perm")
	if rapid.IntRange(0, 3).Draw(t, "inner_psk") == 0 {
		// pre_shared_key must be the last extension
		idl := rapid.IntRange(1, 64).Draw(t, "inner_psk_idlen")
		ids := append(u16(idl), genBytes(t, "inner_psk_id", idl)...)
		ids = append(ids, 0, 0, 0, 0)
		b := append(u16(len(ids)), ids...)
		b = append(b, u16(33)...)
		b = append(b, 32)
		b = append(b, genBytes(t, "inner_psk_binder", 32)...)
		perm = append(perm, Ext{ExtPSK, b})
	}
	inner.Exts = perm

	// choose the compressed run among segments free of {ECH inner, SNI, PSK}
	ok := func(e Ext) bool { return e.Type != ExtECH && e.Type != ExtSNI && e.Type != ExtPSK }
	n := len(inner.Exts)
	tp.RunStart, tp.RunLen = 0, 0
	if rapid.IntRange(0, 9).Draw(t, "compress") != 0 {
		start := rapid.IntRange(0, n-1).Draw(t, "run_start")
		for start < n && !ok(inner.Exts[start]) {
			start++
		}
		if start < n {
			max := 0
			for start+max < n && ok(inner.Exts[start+max]) {
				max++
			}
			if max > 0 {
				l := max
				if rapid.IntRange(0, 2).Draw(t, "run_whole") != 0 {
					l = rapid.IntRange(1, max).Draw(t, "run_len")
				}
				tp.RunStart, tp.RunLen = start, l
			}
		}
	}
	compressed := append([]Ext{}, inner.Exts[tp.RunStart:tp.RunStart+tp.RunLen]...)

	// big sizes: inflate one inner extension (compressed or not)
	if o.Big && rapid.IntRange(0, 3).Draw(t, "big") == 0 {
		// find a free-type extension to inflate
		var cands []int
		for i, e := range inner.Exts {
			if ok(e) && e.Type != ExtALPN && e.Type != ExtSupportedVersions {
				cands = append(cands, i)
			}
		}
		if len(cands) > 0 {
			i := cands[rapid.IntRange(0, len(cands)-1).Draw(t, "big_idx")]
			sz := rapid.IntRange(2000, 13000).Draw(t, "big_sz")
			if i >= tp.RunStart && i < tp.RunStart+tp.RunLen {
				// compressed: appears once in outer, once in reconstructed inner
			} else {
				sz = sz / 2 // uncompressed inner bytes travel inside the outer payload
			}
			ty := inner.Exts[i].Type
			if ty == 51 || ty == 10 || ty == 13 || ty == 50 || ty == 45 || ty == 11 || ty == 27 || ty == 28 || ty == 23 || ty == 49 || ty == 18 {
				// keep well-known types syntactically valid: inflate via padding type instead
				ty = 21
				if used[21] {
					ty = 0
				}
			}
			if ty != 0 {
				var d []byte
				if ty == 21 {
					d = make([]byte, sz)
					used[21] = true
				} else {
					d = genBytes(t, "big_bytes", sz)
				}
				inner.Exts[i] = Ext{ty, d}
				compressed = append([]Ext{}, inner.Exts[tp.RunStart:tp.RunStart+tp.RunLen]...)
			}
		}
	}
	tp.Inner = inner

	// outer hello
	outer := GenBase(t, "outer")
	outer.Version = 0x0303
	if rapid.IntRange(0, 2).Draw(t, "same_random") == 0 {
		outer.Random = append([]byte{}, inner.Random...)
	}
	oused := map[uint16]bool{}
	for _, e := range compressed {
		oused[e.Type] = true
	}
	var own []Ext
	own = append(own, Ext{ExtSNI, SNIExt(o.PublicName)})
	own = append(own, Ext{ExtECH, nil})
	if !oused[ExtSupportedVersions] {
		ov := []uint16{0x0304}
		if rapid.Bool().Draw(t, "outer_v12too") {
			ov = append(ov, 0x0303)
		}
		own = append(own, Ext{ExtSupportedVersions, VersionsExt(ov)})
	}
	if !oused[ExtALPN] && rapid.Bool().Draw(t, "outer_alpn") {
		oa := GenALPN(t, "outer_alpn_v")
		if len(oa) > 0 {
			own = append(own, Ext{ExtALPN, ALPNExt(oa)})
		}
	}
	nof := rapid.IntRange(0, 8).Draw(t, "outer_nfree")
	for i := 0; i < nof; i++ {
		own = append(own, GenFreeExt(t, fmt.Sprintf("outer_free%d", i), oused))
	}
	own = rapid.Permutation(own).Draw(t, "outer_perm")
	// merge: keep compressed in order, interleave with own at drawn positions
	var merged []Ext
	ci, oi := 0, 0
	for ci < len(compressed) || oi < len(own) {
		takeC := false
		if ci < len(compressed) && oi < len(own) {
			takeC = rapid.Bool().Draw(t, "merge")
		} else if ci < len(compressed) {
			takeC = true
		}
		if takeC {
			merged = append(merged, Ext{compressed[ci].Type, append([]byte{}, compressed[ci].Data...)})
			ci++
		} else {
			merged = append(merged, own[oi])
			oi++
		}
	}
	outer.Exts = merged
	tp.Outer = outer
	switch rapid.IntRange(0, 4).Draw(t, "padclass") {
	case 0:
		tp.Pad = 0
	case 1:
		tp.Pad = rapid.IntRange(256, 600).Draw(t, "padbig")
	default:
		tp.Pad = rapid.IntRange(1, 255).Draw(t, "pad")
	}
	return tp
}

// Sizes returns (inner message size, outer message size estimate incl. payload).
func (tp *Tuple) Sizes() (int, int) {
	in := len(tp.Inner.Message())
	enc := len(Encode(Compress(tp.Inner, tp.RunStart, tp.RunLen), make([]byte, tp.Pad)))
	out := len(tp.Outer.Message()) + 1 + 4 + 1 + 2 + 32 + 2 + enc + 16
	return in, out
}

// PlainOpts steers GenPlain.
type PlainOpts struct {
	ECH       []byte // if non-nil: body of an ECH extension to include
	NoTLS13   bool   // do not offer TLS 1.3
	ForceSNI  string // non-empty: use this server name
	NoExtKind int    // 0 normal, 1 no extension block, 2 empty block
	Big       bool
}

// GenPlain draws a syntactically valid ClientHello (arbitrary extension types,
// order and contents) following the options.
func GenPlain(t *rapid.T, label string, o PlainOpts) *Hello {
	h := GenBase(t, label)
	if o.NoExtKind == 1 {
		h.NoExtBlock = true
		return h
	}
	if o.NoExtKind == 2 {
		return h
	}
	used := map[uint16]bool{}
	var exts []Ext
	if o.ForceSNI != "" {
		exts = append(exts, Ext{ExtSNI, SNIExt(o.ForceSNI)})
	} else if rapid.IntRange(0, 5).Draw(t, label+"_sni") != 0 {
		exts = append(exts, Ext{ExtSNI, SNIExt(MixCase(t, label+"_name", GenName(t, label+"_name", 253)))})
	}
	if a := GenALPN(t, label+"_alpn"); len(a) > 0 {
		exts = append(exts, Ext{ExtALPN, ALPNExt(a)})
	}
	if o.NoTLS13 {
		switch rapid.IntRange(0, 2).Draw(t, label+"_lowv") {
		case 0: // no supported_versions
		case 1:
			exts = append(exts, Ext{ExtSupportedVersions, VersionsExt([]uint16{0x0303})})
		default:
			exts = append(exts, Ext{ExtSupportedVersions, VersionsExt([]uint16{0x0303, 0x0302, 0x0301})})
		}
	} else {
		vs := []uint16{0x0304}
		if rapid.Bool().Draw(t, label+"_v12") {
			vs = append(vs, 0x0303)
		}
		if rapid.IntRange(0, 3).Draw(t, label+"_vg") == 0 {
			vs = append([]uint16{0xdada}, vs...)
		}
		exts = append(exts, Ext{ExtSupportedVersions, VersionsExt(vs)})
	}
	if o.ECH != nil {
		exts = append(exts, Ext{ExtECH, o.ECH})
	}
	n := rapid.IntRange(0, 14).Draw(t, label+"_nfree")
	for i := 0; i < n; i++ {
		exts = append(exts, GenFreeExt(t, fmt.Sprintf("%s_free%d", label, i), used))
	}
	if o.Big && !used[21] {
		exts = append(exts, Ext{21, make([]byte, rapid.IntRange(9000, 15200).Draw(t, label+"_bigpad"))})
	}
	exts = rapid.Permutation(exts).Draw(t, label+"_perm")
	if !o.NoTLS13 && rapid.IntRange(0, 4).Draw(t, label+"_psk") == 0 {
		idl := rapid.IntRange(1, 64).Draw(t, label+"_psk_idlen")
		ids := append(u16(idl), genBytes(t, label+"_psk_id", idl)...)
		ids = append(ids, 0, 0, 0, 0)
		b := append(u16(len(ids)), ids...)
		b = append(b, u16(33)...)
		b = append(b, 32)
		b = append(b, genBytes(t, label+"_psk_binder", 32)...)
		exts = append(exts, Ext{ExtPSK, b})
	}
	h.Exts = exts
	return h
}

// GenBytes exposes the cheap byte generator.
func GenBytes(t *rapid.T, label string, n int) []byte { return genBytes(t, label, n) }

// TwoLabels turns a generated host name into one with at least two labels
// (crypto/tls only accepts such public names), keeping its length when possible.
func TwoLabels(name string) string {
	if strings.Contains(name, ".") {
		return name
	}
	if len(name) >= 3 {
		b := []byte(name)
		b[len(b)/2] = '.'
		if b[len(b)/2-1] == '-' {
			b[len(b)/2-1] = 'a'
		}
		if b[len(b)/2+1] == '-' {
			b[len(b)/2+1] = 'a'
		}
		return sanitizeName(string(b))
	}
	return name + ".x"
}

// NameOfLen draws a valid multi-label host name of exactly n bytes (n >= 3).
func NameOfLen(t *rapid.T, label string, n int) string {
	var b []byte
	i := 0
	for len(b) < n {
		rem := n - len(b)
		max := 63
		if rem < max {
			max = rem
		}
		l := GenLabel(t, fmt.Sprintf("%s_l%d", label, i), max)
		i++
		if rem-len(l) == 1 { // would need a lone trailing dot
			if len(l) > 1 {
				l = l[:len(l)-1]
				if l[len(l)-1] == '-' {
					l = l[:len(l)-1] + "a"
				}
			} else {
				l = l + "a"
			}
		}
		b = append(b, l...)
		if len(b) < n {
			b = append(b, '.')
		}
	}
	s := string(b[:n])
	if !strings.Contains(s, ".") {
		return TwoLabels(s)
	}
	return s
}
