package hello

import (
	"crypto/ecdh"
	"crypto/hpke"
	"fmt"
)

// Suite is an HPKE symmetric cipher suite.
type Suite struct {
	KDF  uint16 `json:"kdf"`
	AEAD uint16 `json:"aead"`
}

var AllSuites = []Suite{{1, 1}, {1, 2}, {1, 3}}

// ConfigBytes encodes one ECHConfig (draft-ietf-tls-esni section 4), written
// from the draft, independent of ech.ConfigSpec.Bytes.
func ConfigBytes(id uint8, kem uint16, pub []byte, suites []Suite, maxNameLen uint8, publicName []byte) []byte {
	return ConfigBytesExt(id, kem, pub, suites, maxNameLen, publicName, nil)
}

// ConfigBytesExt is ConfigBytes with an extensions block (the concatenated
// ECHConfigExtension entries, without their outer length prefix).
func ConfigBytesExt(id uint8, kem uint16, pub []byte, suites []Suite, maxNameLen uint8, publicName []byte, exts []byte) []byte {
	var c []byte
	c = append(c, id)
	c = append(c, u16(int(kem))...)
	c = append(c, u16(len(pub))...)
	c = append(c, pub...)
	c = append(c, u16(4*len(suites))...)
	for _, s := range suites {
		c = append(c, u16(int(s.KDF))...)
		c = append(c, u16(int(s.AEAD))...)
	}
	c = append(c, maxNameLen)
	c = append(c, byte(len(publicName)))
	c = append(c, publicName...)
	c = append(c, u16(len(exts))...) // extensions
	c = append(c, exts...)
	out := []byte{0xfe, 0x0d}
	out = append(out, u16(len(c))...)
	return append(out, c...)
}

// ConfigFields is the harness-side decoding of one ECHConfig.
type ConfigFields struct {
	Version    uint16
	ID         uint8
	KEM        uint16
	PublicKey  []byte
	Suites     []Suite
	MaxNameLen uint8
	PublicName []byte
	Extensions []byte
	Len        int // total encoded length consumed
}

// ParseConfig decodes one ECHConfig strictly (all declared lengths must be
// consistent, contents must fill the declared length exactly).
func ParseConfig(b []byte) (*ConfigFields, error) {
	r := &rd{b: b}
	var f ConfigFields
	f.Version = uint16(r.u16())
	c := &rd{b: r.n(r.u16())}
	if r.err != nil {
		return nil, ErrParse
	}
	f.Len = len(b) - len(r.b)
	f.ID = uint8(c.u8())
	f.KEM = uint16(c.u16())
	f.PublicKey = append([]byte{}, c.n(c.u16())...)
	s := &rd{b: c.n(c.u16())}
	if c.err != nil || len(s.b)%4 != 0 {
		return nil, ErrParse
	}
	for len(s.b) > 0 {
		f.Suites = append(f.Suites, Suite{uint16(s.u16()), uint16(s.u16())})
	}
	f.MaxNameLen = uint8(c.u8())
	f.PublicName = append([]byte{}, c.n(c.u8())...)
	f.Extensions = append([]byte{}, c.n(c.u16())...)
	if c.err != nil || len(c.b) != 0 {
		return nil, ErrParse
	}
	return &f, nil
}

// Key is a server key pair with its config.
type Key struct {
	Priv       *ecdh.PrivateKey
	Config     []byte
	ID         uint8
	PublicName string
	Suites     []Suite
}

// NewKey builds a key from 32 seed bytes (deterministic).
func NewKey(seed []byte, id uint8, publicName string, suites []Suite) (*Key, error) {
	priv, err := ecdh.X25519().NewPrivateKey(seed)
	if err != nil {
		return nil, err
	}
	mnl := len(publicName) + 16
	if mnl > 255 {
		mnl = 255
	}
	cfg := ConfigBytes(id, 0x0020, priv.PublicKey().Bytes(), suites, uint8(mnl), []byte(publicName))
	return &Key{Priv: priv, Config: cfg, ID: id, PublicName: publicName, Suites: suites}, nil
}

func aeadOf(id uint16) (hpke.AEAD, error) {
	switch id {
	case 1:
		return hpke.AES128GCM(), nil
	case 2:
		return hpke.AES256GCM(), nil
	case 3:
		return hpke.ChaCha20Poly1305(), nil
	}
	return nil, fmt.Errorf("unsupported aead %d", id)
}

// Sealer is an HPKE sender context bound to one config (info = "tls ech\0"||config).
type Sealer struct {
	Enc    []byte
	Suite  Suite
	ID     uint8
	sender *hpke.Sender
	Seq    int
}

// NewSealer sets up a sender towards pub with the given config bytes as info.
func NewSealer(config, pub []byte, s Suite, id uint8) (*Sealer, error) {
	pk, err := ecdh.X25519().NewPublicKey(pub)
	if err != nil {
		return nil, err
	}
	hpk, err := hpke.NewDHKEMPublicKey(pk)
	if err != nil {
		return nil, err
	}
	aead, err := aeadOf(s.AEAD)
	if err != nil {
		return nil, err
	}
	if s.KDF != 1 {
		return nil, fmt.Errorf("unsupported kdf %d", s.KDF)
	}
	info := append([]byte("tls ech\x00"), config...)
	enc, sender, err := hpke.NewSender(hpk, hpke.HKDFSHA256(), aead, info)
	if err != nil {
		return nil, err
	}
	return &Sealer{Enc: enc, Suite: s, ID: id, sender: sender}, nil
}

// Skip burns one sequence number (used to build "wrong sequence" faults).
func (s *Sealer) Skip() {
	s.sender.Seal(nil, nil)
	s.Seq++
}

// MarkerExt builds an ech_outer_extensions extension naming the types.
func MarkerExt(types []uint16) Ext {
	d := []byte{byte(2 * len(types))}
	for _, t := range types {
		d = append(d, u16(int(t))...)
	}
	return Ext{ExtOuterExtensions, d}
}

// Compress returns a copy of inner in which the run [start,start+n) of the
// extension list is replaced by one ech_outer_extensions marker (n may be 0:
// then nothing is replaced).
func Compress(inner *Hello, start, n int) *Hello {
	c := inner.Clone()
	if n == 0 {
		return c
	}
	var types []uint16
	for _, e := range inner.Exts[start : start+n] {
		types = append(types, e.Type)
	}
	exts := append([]Ext{}, c.Exts[:start]...)
	exts = append(exts, MarkerExt(types))
	exts = append(exts, c.Exts[start+n:]...)
	c.Exts = exts
	return c
}

// Encode builds EncodedClientHelloInner: body with an empty session id,
// followed by the padding bytes.
func Encode(h *Hello, pad []byte) []byte {
	c := h.Clone()
	c.SessionID = nil
	return append(c.Body(), pad...)
}

// EncodeWithSessionID is Encode for a (non-conforming) client that leaves a
// legacy_session_id of its own in EncodedClientHelloInner.
func EncodeWithSessionID(h *Hello, sid, pad []byte) []byte {
	c := h.Clone()
	c.SessionID = append([]byte{}, sid...)
	return append(c.Body(), pad...)
}

// SealOuter fills the placeholder ECH extension of outer (the first extension
// of type 0xfe0d) with an authentic payload over encoded, and returns the
// final handshake message. first selects whether enc is sent (first hello) or
// empty (retried hello). The AAD is computed from the raw serialised message
// with the payload bytes zeroed.
func (s *Sealer) SealOuter(outer *Hello, encoded []byte, first bool) ([]byte, error) {
	return s.SealOuterAAD(outer, encoded, first, nil)
}

// SealOuterAAD is SealOuter with a hook that may tamper with the AAD (for
// negative cases).
func (s *Sealer) SealOuterAAD(outer *Hello, encoded []byte, first bool, tamper func(aad []byte) []byte) ([]byte, error) {
	i := outer.Find(ExtECH)
	if i < 0 {
		return nil, fmt.Errorf("outer has no ECH placeholder")
	}
	enc := s.Enc
	if !first {
		enc = nil
	}
	const tag = 16
	placeholder := make([]byte, len(encoded)+tag)
	outer.Exts[i].Data = ECHOuterExt(s.Suite.KDF, s.Suite.AEAD, s.ID, enc, placeholder)
	aad := outer.Body() // payload already zero
	if tamper != nil {
		aad = tamper(aad)
	}
	ct, err := s.sender.Seal(aad, encoded)
	s.Seq++
	if err != nil {
		return nil, err
	}
	if len(ct) != len(placeholder) {
		return nil, fmt.Errorf("unexpected ciphertext length %d != %d", len(ct), len(placeholder))
	}
	outer.Exts[i].Data = ECHOuterExt(s.Suite.KDF, s.Suite.AEAD, s.ID, enc, ct)
	return outer.Message(), nil
}

// ExpectedInner is the ClientHelloInner the backend must see: inner with the
// outer hello's legacy_session_id.
func ExpectedInner(inner, outer *Hello) *Hello {
	c := inner.Clone()
	c.SessionID = append([]byte{}, outer.SessionID...)
	return c
}

// ReferenceOpen is the harness-side receiver: it opens the ECH payload of an
// outer ClientHello message with crypto/hpke and a raw-byte AAD. It returns the
// EncodedClientHelloInner, or an error.
func ReferenceOpen(k *Key, outerMsg []byte) ([]byte, error) {
	h, err := ParseMessage(outerMsg)
	if err != nil {
		return nil, err
	}
	i := h.Find(ExtECH)
	if i < 0 {
		return nil, fmt.Errorf("no ech")
	}
	r := &rd{b: h.Exts[i].Data}
	if r.u8() != 0 {
		return nil, fmt.Errorf("not outer")
	}
	kdf, aead, id := uint16(r.u16()), uint16(r.u16()), uint8(r.u8())
	enc := r.n(r.u16())
	payload := r.n(r.u16())
	if r.err != nil || len(r.b) != 0 {
		return nil, ErrParse
	}
	if id != k.ID {
		return nil, fmt.Errorf("config id mismatch")
	}
	ok := false
	for _, s := range k.Suites {
		if s.KDF == kdf && s.AEAD == aead {
			ok = true
		}
	}
	if !ok {
		return nil, fmt.Errorf("suite mismatch")
	}
	a, err := aeadOf(aead)
	if err != nil {
		return nil, err
	}
	sk, err := hpke.NewDHKEMPrivateKey(k.Priv)
	if err != nil {
		return nil, err
	}
	rc, err := hpke.NewRecipient(enc, sk, hpke.HKDFSHA256(), a, append([]byte("tls ech\x00"), k.Config...))
	if err != nil {
		return nil, err
	}
	// AAD: the raw message body with the payload bytes zeroed in place.
	body := append([]byte{}, outerMsg[4:]...)
	// locate payload inside body: it is the tail of the ECH extension data.
	off := locateExtData(body, i)
	if off < 0 {
		return nil, ErrParse
	}
	dl := len(h.Exts[i].Data)
	for j := off + dl - len(payload); j < off+dl; j++ {
		body[j] = 0
	}
	return rc.Open(body, payload)
}

// locateExtData returns the offset in body of the data of the idx-th extension.
func locateExtData(body []byte, idx int) int {
	p := 2 + 32
	if len(body) < p+1 {
		return -1
	}
	p += 1 + int(body[p])
	if len(body) < p+2 {
		return -1
	}
	p += 2 + (int(body[p])<<8 | int(body[p+1]))
	if len(body) < p+1 {
		return -1
	}
	p += 1 + int(body[p])
	p += 2
	for k := 0; ; k++ {
		if len(body) < p+4 {
			return -1
		}
		l := int(body[p+2])<<8 | int(body[p+3])
		if k == idx {
			return p + 4
		}
		p += 4 + l
	}
}
