package dnsfx

import (
	"net"
	"net/netip"
	"sort"

	"github.com/c2FmZQ/ech"
)

// RefTarget is what the reference Targets yields.
type RefTarget struct {
	Addr netip.AddrPort
	ECH  []byte
	ALPN map[string]bool
	Rec  int // index of the HTTPS record that produced it (-1: plain address)
}

// RefTargets is the reference implementation of ResolveResult.Targets written
// from the property text.
func RefTargets(r ech.ResolveResult, network string) []RefTarget {
	okFamily := func(ip net.IP) (netip.Addr, bool) {
		switch network {
		case "tcp4", "udp4":
			if len(ip) != 4 {
				return netip.Addr{}, false
			}
		case "tcp6", "udp6":
			if len(ip) != 16 {
				return netip.Addr{}, false
			}
		}
		return netip.AddrFromSlice(ip)
	}
	var out []RefTarget
	seen := map[netip.AddrPort]bool{}
	emit := func(ip net.IP, port uint16, ech []byte, alpn map[string]bool, rec int) {
		a, ok := okFamily(ip)
		if !ok {
			return
		}
		ap := netip.AddrPortFrom(a, port)
		if seen[ap] {
			return
		}
		seen[ap] = true
		out = append(out, RefTarget{Addr: ap, ECH: ech, ALPN: alpn, Rec: rec})
	}
	for i, h := range r.HTTPS {
		if h.Priority == 0 {
			continue // alias mode
		}
		port := r.Port
		if port == 80 {
			port = 443 // RFC 9460 9.5
		}
		if h.Port > 0 {
			port = h.Port
		}
		alpn := map[string]bool{}
		for _, a := range h.ALPN {
			alpn[a] = true
		}
		if !h.NoDefaultALPN {
			alpn["http/1.1"] = true
		}
		var addrs []net.IP
		switch {
		case h.Target != "":
			addrs = r.Additional[h.Target]
		case len(r.Address) > 0:
			addrs = r.Address
		default:
			addrs = append(append([]net.IP{}, h.IPv4Hint...), h.IPv6Hint...)
		}
		for _, a := range addrs {
			emit(a, port, h.ECH, alpn, i)
		}
	}
	if len(out) > 0 {
		return out
	}
	for _, a := range r.Address {
		emit(a, r.Port, nil, nil, -1)
	}
	return out
}

// SortedKeys returns the keys of a set.
func SortedKeys(m map[string]bool) []string {
	var k []string
	for s := range m {
		k = append(k, s)
	}
	sort.Strings(k)
	return k
}
