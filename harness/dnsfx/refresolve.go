package dnsfx

import (
	"fmt"
	"net"
	"net/url"
	"sort"
	"strconv"
	"strings"

	"github.com/c2FmZQ/ech/dns"
)

// RefOutcome is what the reference resolver expects from Resolve.
type RefOutcome struct {
	Err        string // "", "invalid_name", "rcode:<n>", "http"
	Port       uint16
	Address    []string
	HTTPS      []dns.HTTPS // sorted by priority (stable)
	Additional map[string][]string
	// Alt, when non-nil, is a second acceptable outcome (alias chains longer
	// than the guaranteed depth, "." aliases).
	Alt *RefOutcome
	// Queries the resolver may send: "name|TYPE".
	Allowed    map[string]bool
	MaxQueries int
	NoQuery    bool
	AliasDepth int
	AliasLoop  bool
	SvcbName   string
	Host       string
}

// ParsedInput is the reference reading of the name argument.
type ParsedInput struct {
	Scheme  string
	Host    string
	Port    uint16
	HasPort bool
	// Absolute: the host was written with a trailing dot (removed from Host)
	Absolute bool
}

// ParseInput follows the documentation of Resolver.Resolve.
func ParseInput(name string) ParsedInput {
	p := ParsedInput{Scheme: "https", Port: 443}
	if u, err := url.Parse(name); err == nil && u.Scheme != "" && u.Host != "" {
		p.Scheme = strings.ToLower(u.Scheme)
		if p.Scheme == "http" {
			p.Scheme = "https"
		}
		name = u.Host
	}
	if h, port, err := net.SplitHostPort(name); err == nil {
		if pp, err := strconv.ParseUint(port, 10, 16); err == nil {
			name = h
			if pp > 0 {
				p.Port = uint16(pp)
				p.HasPort = true
			}
		}
	}
	// a fully qualified name may be written with its trailing dot: same name
	if len(name) > 1 && strings.HasSuffix(name, ".") && net.ParseIP(name) == nil {
		name = strings.TrimSuffix(name, ".")
		p.Absolute = true
	}
	p.Host = name
	return p
}

func validDNS(name string) bool {
	if len(name) == 0 || len(name) > 253 {
		return false
	}
	for _, l := range strings.Split(name, ".") {
		if len(l) == 0 || len(l) > 63 {
			return false
		}
	}
	return true
}

func ipStrings(recs []ZRec) []string {
	var out []string
	for _, r := range recs {
		out = append(out, r.IP.String())
	}
	return out
}

// RefResolve computes the expected outcome of Resolve(input) over the zone.
func RefResolve(z *Zone, input string) RefOutcome {
	p := ParseInput(input)
	out := RefOutcome{Port: p.Port, Allowed: map[string]bool{}, Host: p.Host}
	if p.Host == "localhost" {
		out.Address = []string{"127.0.0.1", "::1"}
		out.NoQuery = true
		return out
	}
	if ip := net.ParseIP(p.Host); ip != nil {
		out.Address = []string{ip.String()}
		out.NoQuery = true
		return out
	}
	svcb := p.Host
	alt := ""
	if p.Port != 80 && p.Port != 443 {
		svcb = fmt.Sprintf("_%d._%s.%s", p.Port, p.Scheme, p.Host)
	} else if p.Scheme != "https" {
		svcb = fmt.Sprintf("_%s.%s", p.Scheme, p.Host)
		alt = fmt.Sprintf("_%d._%s.%s", p.Port, p.Scheme, p.Host)
	}
	out.SvcbName = svcb
	if !validDNS(p.Host) || !validDNS(svcb) {
		out.Err = "invalid_name"
		out.NoQuery = true
		return out
	}
	allow := func(n string, types ...string) {
		for _, t := range types {
			out.Allowed[strings.ToLower(n)+"|"+t] = true
		}
	}
	allow(svcb, "HTTPS")
	if alt != "" {
		allow(alt, "HTTPS")
	}
	allow(p.Host, "A", "AAAA")
	lookup := func(name string, typ uint16) (int, []ZRec) {
		if st, ok := z.HTTPErr[Key(name, typ)]; ok {
			return -st, nil
		}
		rc, ans := z.Answer(name, typ)
		var recs []ZRec
		for _, a := range ans {
			if a.Type == typ {
				recs = append(recs, a.Rec)
			}
		}
		return rc, recs
	}
	errOf := func(rc int) string {
		if rc < 0 {
			return "http"
		}
		return fmt.Sprintf("rcode:%d", rc)
	}
	// finish computes addresses of the final name and of the service targets.
	finish := func(o RefOutcome, final string, https []ZRec) RefOutcome {
		o.HTTPS = nil
		for _, r := range https {
			o.HTTPS = append(o.HTTPS, r.HTTPS)
		}
		sort.SliceStable(o.HTTPS, func(i, j int) bool { return o.HTTPS[i].Priority < o.HTTPS[j].Priority })
		o.Additional = nil
		for _, h := range o.HTTPS {
			if h.Priority == 0 || h.Target == "" {
				continue
			}
			if o.Additional == nil {
				o.Additional = map[string][]string{}
			}
			if l, done := o.Additional[h.Target]; done && len(l) > 0 {
				continue
			}
			allow(h.Target, "A", "AAAA")
			o.MaxQueries += 2
			rc, a := lookup(h.Target, 1)
			if rc != 0 {
				o.Additional[h.Target] = nil
				continue // errors on target lookups are ignored
			}
			rc, aaaa := lookup(h.Target, 28)
			if rc != 0 {
				// the A answers were already recorded before the AAAA lookup failed
				o.Additional[h.Target] = ipStrings(a)
				continue
			}
			o.Additional[h.Target] = append(ipStrings(a), ipStrings(aaaa)...)
		}
		allow(final, "A", "AAAA")
		rc, a := lookup(final, 1)
		if rc != 0 {
			o.Err = errOf(rc)
			return o
		}
		rc, aaaa := lookup(final, 28)
		if rc != 0 {
			o.Err = errOf(rc)
			return o
		}
		o.Address = append(ipStrings(a), ipStrings(aaaa)...)
		return o
	}
	out.MaxQueries = 3
	want := svcb
	seen := map[string]bool{}
	depth := 0
	for {
		if seen[want] {
			out.AliasLoop = true
			// loop: fall back to the origin host without HTTPS records
			return finish(out, p.Host, nil)
		}
		seen[want] = true
		allow(want, "HTTPS")
		out.MaxQueries++
		rc, recs := lookup(want, 65)
		if rc != 0 && rc != 3 {
			out.Err = errOf(rc)
			return out
		}
		if rc == 3 {
			recs = nil
		}
		if len(recs) > 0 && recs[0].HTTPS.Priority == 0 {
			if recs[0].HTTPS.Target == "" {
				// alias to ".": the service is declared unavailable; no HTTPS
				// records are used. Addresses of the current name are looked up.
				final := want
				if final == svcb {
					final = p.Host
				}
				return finish(out, final, nil)
			}
			depth++
			out.AliasDepth = depth
			want = recs[0].HTTPS.Target
			if depth > 2 {
				// beyond the depth every implementation must follow: the full
				// resolution and the documented fall-back are both acceptable
				fb := finish(cloneOutcome(out), p.Host, nil)
				rest := refContinue(z, out, p, svcb, want, seen, depth, lookup, errOf, finish, allow)
				rest.Alt = &fb
				return rest
			}
			continue
		}
		final := want
		if final == svcb {
			final = p.Host
		}
		return finish(out, final, recs)
	}
}

func cloneOutcome(o RefOutcome) RefOutcome {
	c := o
	c.Allowed = o.Allowed // shared on purpose: the allowed set is a union
	return c
}

// refContinue follows the alias chain to its end without a depth limit (but
// with loop protection).
func refContinue(z *Zone, out RefOutcome, p ParsedInput, svcb, want string, seen map[string]bool, depth int,
	lookup func(string, uint16) (int, []ZRec), errOf func(int) string, finish func(RefOutcome, string, []ZRec) RefOutcome, allow func(string, ...string)) RefOutcome {
	for {
		if seen[want] {
			out.AliasLoop = true
			return finish(out, p.Host, nil)
		}
		seen[want] = true
		allow(want, "HTTPS")
		out.MaxQueries++
		rc, recs := lookup(want, 65)
		if rc != 0 && rc != 3 {
			out.Err = errOf(rc)
			return out
		}
		if rc == 3 {
			recs = nil
		}
		if len(recs) > 0 && recs[0].HTTPS.Priority == 0 {
			if recs[0].HTTPS.Target == "" {
				return finish(out, want, nil)
			}
			depth++
			out.AliasDepth = depth
			want = recs[0].HTTPS.Target
			continue
		}
		return finish(out, want, recs)
	}
}
