package dnsfx

import (
	"bufio"
	"fmt"
	"io"
	"net"
	"net/http"
	"sync"
)

// RawServer is an HTTP/1.1 responder over a bare TCP listener: unlike
// net/http's server it can send framing headers that do not match the body
// (a Content-Length larger or smaller than what follows, or none at all).
type RawServer struct {
	URL string
	ln  net.Listener
	mu  sync.Mutex
	// Head is written after the status line (without the final blank line);
	// Body follows the blank line; then the connection is closed.
	Head string
	Body []byte
}

// NewRawServer starts the responder on 127.0.0.1.
func NewRawServer() (*RawServer, error) {
	ln, err := net.Listen("tcp", "127.0.0.1:0")
	if err != nil {
		return nil, err
	}
	s := &RawServer{ln: ln, URL: "http://" + ln.Addr().String() + "/dns-query"}
	go func() {
		for {
			c, err := ln.Accept()
			if err != nil {
				return
			}
			go s.serve(c)
		}
	}()
	return s, nil
}

func (s *RawServer) serve(c net.Conn) {
	defer c.Close()
	req, err := http.ReadRequest(bufio.NewReader(c))
	if err != nil {
		return
	}
	io.Copy(io.Discard, io.LimitReader(req.Body, 1<<17))
	s.mu.Lock()
	head, body := s.Head, s.Body
	s.mu.Unlock()
	fmt.Fprintf(c, "HTTP/1.1 200 OK\r\nContent-Type: application/dns-message\r\nConnection: close\r\n%s\r\n", head)
	c.Write(body)
}

// Set installs the framing headers and body of the next responses.
func (s *RawServer) Set(head string, body []byte) {
	s.mu.Lock()
	s.Head, s.Body = head, append([]byte{}, body...)
	s.mu.Unlock()
}

func (s *RawServer) Close() { s.ln.Close() }
