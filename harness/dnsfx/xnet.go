package dnsfx

import (
	"fmt"
	"net"
	"strings"

	"github.com/c2FmZQ/ech/dns"
	"golang.org/x/net/dns/dnsmessage"
	"pgregory.net/rapid"
)

func xname(n string) (dnsmessage.Name, error) { return dnsmessage.NewName(n + ".") }

func fromX(n dnsmessage.Name) string { return strings.TrimSuffix(n.String(), ".") }

// HTTPSFromParams interprets SvcParams per RFC 9460 the way dns.HTTPS exposes them.
func HTTPSFromParams(prio uint16, target string, params []dnsmessage.SVCParam) (dns.HTTPS, error) {
	h := dns.HTTPS{Priority: prio, Target: target}
	for _, p := range params {
		v := p.Value
		switch p.Key {
		case 1:
			for len(v) > 0 {
				l := int(v[0])
				if len(v) < 1+l {
					return h, fmt.Errorf("bad alpn")
				}
				h.ALPN = append(h.ALPN, string(v[1:1+l]))
				v = v[1+l:]
			}
		case 2:
			h.NoDefaultALPN = true
		case 3:
			if len(v) < 2 {
				return h, fmt.Errorf("bad port")
			}
			h.Port = uint16(v[0])<<8 | uint16(v[1])
		case 4:
			for len(v) >= 4 {
				h.IPv4Hint = append(h.IPv4Hint, net.IP(append([]byte{}, v[:4]...)))
				v = v[4:]
			}
			if len(v) != 0 {
				return h, fmt.Errorf("bad ipv4hint")
			}
		case 5:
			h.ECH = append([]byte{}, v...)
		case 6:
			for len(v) >= 16 {
				h.IPv6Hint = append(h.IPv6Hint, net.IP(append([]byte{}, v[:16]...)))
				v = v[16:]
			}
			if len(v) != 0 {
				return h, fmt.Errorf("bad ipv6hint")
			}
		}
	}
	return h, nil
}

func bodyToData(b dnsmessage.ResourceBody) (any, error) {
	switch r := b.(type) {
	case *dnsmessage.AResource:
		return net.IP(append([]byte{}, r.A[:]...)), nil
	case *dnsmessage.AAAAResource:
		return net.IP(append([]byte{}, r.AAAA[:]...)), nil
	case *dnsmessage.NSResource:
		return fromX(r.NS), nil
	case *dnsmessage.CNAMEResource:
		return fromX(r.CNAME), nil
	case *dnsmessage.PTRResource:
		return fromX(r.PTR), nil
	case *dnsmessage.MXResource:
		return dns.MX{Preference: r.Pref, Exchange: fromX(r.MX)}, nil
	case *dnsmessage.SOAResource:
		return dns.SOA{MName: fromX(r.NS), RName: fromX(r.MBox), Serial: r.Serial, Refresh: r.Refresh, Retry: r.Retry, Expire: r.Expire, Minimum: r.MinTTL}, nil
	case *dnsmessage.TXTResource:
		return dns.TXT(append([]string{}, r.TXT...)), nil
	case *dnsmessage.SRVResource:
		return dns.SRV{Priority: r.Priority, Weight: r.Weight, Port: r.Port, Target: fromX(r.Target)}, nil
	case *dnsmessage.OPTResource:
		var o []dns.Option
		for _, x := range r.Options {
			o = append(o, dns.Option{Code: x.Code, Data: x.Data})
		}
		return o, nil
	case *dnsmessage.HTTPSResource:
		return HTTPSFromParams(r.Priority, fromX(r.Target), r.Params)
	case *dnsmessage.SVCBResource:
		s := dns.SVCB{Priority: r.Priority, Target: fromX(r.Target)}
		for _, p := range r.Params {
			s.Params = append(s.Params, dns.SVCBParam{Key: uint16(p.Key), Value: p.Value})
		}
		return s, nil
	case *dnsmessage.UnknownResource:
		return append([]byte{}, r.Data...), nil
	}
	return nil, fmt.Errorf("unhandled body %T", b)
}

// XHeader carries what dnsmessage reports about the header.
type XParsed struct {
	Msg      *dns.Message
	ExtRCode uint16 // extended RCODE per dnsmessage (with the first OPT of the additional section)
}

// ParseX parses a packet completely with dnsmessage and converts it to the
// package's message model.
func ParseX(b []byte) (*XParsed, error) {
	var p dnsmessage.Parser
	h, err := p.Start(b)
	if err != nil {
		return nil, err
	}
	bit := func(v bool) uint8 {
		if v {
			return 1
		}
		return 0
	}
	m := &dns.Message{ID: h.ID, QR: bit(h.Response), OpCode: uint8(h.OpCode), AA: bit(h.Authoritative), TC: bit(h.Truncated), RD: bit(h.RecursionDesired), RA: bit(h.RecursionAvailable), RCode: uint8(h.RCode)}
	qs, err := p.AllQuestions()
	if err != nil {
		return nil, fmt.Errorf("questions: %w", err)
	}
	for _, q := range qs {
		m.Question = append(m.Question, dns.Question{Name: fromX(q.Name), Type: uint16(q.Type), Class: uint16(q.Class)})
	}
	out := &XParsed{Msg: m, ExtRCode: uint16(h.RCode)}
	conv := func(rs []dnsmessage.Resource, sec int) ([]dns.RR, error) {
		var o []dns.RR
		for _, r := range rs {
			d, err := bodyToData(r.Body)
			if err != nil {
				return nil, err
			}
			o = append(o, dns.RR{Name: fromX(r.Header.Name), Type: uint16(r.Header.Type), Class: uint16(r.Header.Class), TTL: r.Header.TTL, Data: d})
		}
		return o, nil
	}
	an, err := p.AllAnswers()
	if err != nil {
		return nil, fmt.Errorf("answers: %w", err)
	}
	if m.Answer, err = conv(an, 0); err != nil {
		return nil, err
	}
	au, err := p.AllAuthorities()
	if err != nil {
		return nil, fmt.Errorf("authorities: %w", err)
	}
	if m.Authority, err = conv(au, 1); err != nil {
		return nil, err
	}
	ad, err := p.AllAdditionals()
	if err != nil {
		return nil, fmt.Errorf("additionals: %w", err)
	}
	if m.Additional, err = conv(ad, 2); err != nil {
		return nil, err
	}
	for _, r := range ad {
		if r.Header.Type == dnsmessage.TypeOPT {
			hh := r.Header
			out.ExtRCode = uint16(hh.ExtendedRCode(h.RCode))
			break
		}
	}
	return out, nil
}

// XRecord is one record to be put into a dnsmessage.Builder packet together
// with the data the package's decoder is expected to report.
type XRecord struct {
	Header dnsmessage.ResourceHeader
	Body   dnsmessage.ResourceBody
	Want   dns.RR
}

// GenXName draws a name usable by dnsmessage (LDH-ish bytes without dots).
func GenXName(t *rapid.T, label string, pool []string) string {
	if len(pool) > 0 && rapid.IntRange(0, 2).Draw(t, label+"_reuse") != 0 {
		// reuse (a suffix of) an earlier name: makes the builder emit compression pointers
		n := pool[rapid.IntRange(0, len(pool)-1).Draw(t, label+"_pool")]
		parts := strings.Split(n, ".")
		if len(parts) > 1 && rapid.Bool().Draw(t, label+"_suffix") {
			k := rapid.IntRange(1, len(parts)-1).Draw(t, label+"_suffix_k")
			suffix := strings.Join(parts[k:], ".")
			if rapid.Bool().Draw(t, label+"_prepend") {
				p := GenLabelBytes(t, label+"_pre", 12) + "." + suffix
				if len(p) <= 253 {
					return p
				}
			}
			return suffix
		}
		return n
	}
	return GenWireName(t, label)
}

// GenXRecord draws one record of the types dnsmessage can build.
func GenXRecord(t *rapid.T, label string, pool *[]string, allowOPT bool) (XRecord, error) {
	owner := GenXName(t, label+"_owner", *pool)
	on, err := xname(owner)
	if err != nil {
		return XRecord{}, err
	}
	*pool = append(*pool, owner)
	ttl := uint32(rapid.Uint32().Draw(t, label+"_ttl"))
	x := XRecord{Header: dnsmessage.ResourceHeader{Name: on, Class: dnsmessage.ClassINET, TTL: ttl}}
	x.Want = dns.RR{Name: owner, Class: 1, TTL: ttl}
	nm := func(l string) (string, dnsmessage.Name, error) {
		s := GenXName(t, label+"_"+l, *pool)
		n, err := xname(s)
		*pool = append(*pool, s)
		return s, n, err
	}
	kinds := []string{"A", "AAAA", "NS", "CNAME", "PTR", "MX", "SOA", "TXT", "SRV", "SVCB", "HTTPS", "HTTPS", "UNKNOWN"}
	if allowOPT {
		kinds = append(kinds, "OPT")
	}
	switch k := kinds[rapid.IntRange(0, len(kinds)-1).Draw(t, label+"_kind")]; k {
	case "A":
		var a [4]byte
		copy(a[:], genBytes(t, label+"_a", 4))
		x.Body, x.Want.Type, x.Want.Data = &dnsmessage.AResource{A: a}, 1, net.IP(a[:])
	case "AAAA":
		var a [16]byte
		copy(a[:], genV6(t, label+"_aaaa"))
		x.Body, x.Want.Type, x.Want.Data = &dnsmessage.AAAAResource{AAAA: a}, 28, net.IP(a[:])
	case "NS", "CNAME", "PTR":
		s, n, err := nm("rd")
		if err != nil {
			return x, err
		}
		switch k {
		case "NS":
			x.Body, x.Want.Type = &dnsmessage.NSResource{NS: n}, 2
		case "CNAME":
			x.Body, x.Want.Type = &dnsmessage.CNAMEResource{CNAME: n}, 5
		default:
			x.Body, x.Want.Type = &dnsmessage.PTRResource{PTR: n}, 12
		}
		x.Want.Data = s
	case "MX":
		s, n, err := nm("mx")
		if err != nil {
			return x, err
		}
		pref := uint16(rapid.IntRange(0, 65535).Draw(t, label+"_pref"))
		x.Body, x.Want.Type, x.Want.Data = &dnsmessage.MXResource{Pref: pref, MX: n}, 15, dns.MX{Preference: pref, Exchange: s}
	case "SOA":
		s1, n1, err := nm("mname")
		if err != nil {
			return x, err
		}
		s2, n2, err := nm("rname")
		if err != nil {
			return x, err
		}
		v := func(l string) uint32 { return uint32(rapid.Uint32().Draw(t, label+"_"+l)) }
		r := &dnsmessage.SOAResource{NS: n1, MBox: n2, Serial: v("serial"), Refresh: v("refresh"), Retry: v("retry"), Expire: v("expire"), MinTTL: v("min")}
		x.Body, x.Want.Type = r, 6
		x.Want.Data = dns.SOA{MName: s1, RName: s2, Serial: r.Serial, Refresh: r.Refresh, Retry: r.Retry, Expire: r.Expire, Minimum: r.MinTTL}
	case "TXT":
		var txt []string
		for i, n := 0, rapid.IntRange(1, 4).Draw(t, label+"_ntxt"); i < n; i++ {
			txt = append(txt, string(genBytes(t, label+"_txt", rapid.IntRange(0, 255).Draw(t, label+"_txtl"))))
		}
		x.Body, x.Want.Type, x.Want.Data = &dnsmessage.TXTResource{TXT: txt}, 16, dns.TXT(txt)
	case "SRV":
		s, n, err := nm("srv")
		if err != nil {
			return x, err
		}
		r := &dnsmessage.SRVResource{Priority: uint16(rapid.IntRange(0, 65535).Draw(t, label+"_sp")), Weight: uint16(rapid.IntRange(0, 65535).Draw(t, label+"_sw")), Port: uint16(rapid.IntRange(0, 65535).Draw(t, label+"_spo")), Target: n}
		x.Body, x.Want.Type, x.Want.Data = r, 33, dns.SRV{Priority: r.Priority, Weight: r.Weight, Port: r.Port, Target: s}
	case "SVCB", "HTTPS":
		s, n, err := nm("svc")
		if err != nil {
			return x, err
		}
		prio := uint16(rapid.IntRange(0, 4).Draw(t, label+"_prio"))
		var params []dnsmessage.SVCParam
		var mandatory []byte
		add := func(key uint16, v []byte) {
			params = append(params, dnsmessage.SVCParam{Key: dnsmessage.SVCParamKey(key), Value: v})
			if key != 0 && rapid.IntRange(0, 3).Draw(t, fmt.Sprintf("%s_mand%d", label, key)) == 0 {
				mandatory = append(mandatory, byte(key>>8), byte(key))
			}
		}
		if rapid.Bool().Draw(t, label+"_p1") {
			var v []byte
			for i, n := 0, rapid.IntRange(1, 4).Draw(t, label+"_nalpn"); i < n; i++ {
				a := rapid.SampledFrom([]string{"h2", "h3", "http/1.1", "x-y"}).Draw(t, label+"_alpn")
				v = append(v, byte(len(a)))
				v = append(v, a...)
			}
			add(1, v)
		}
		if rapid.Bool().Draw(t, label+"_p2") {
			add(2, nil)
		}
		if rapid.Bool().Draw(t, label+"_p3") {
			p := rapid.IntRange(1, 65535).Draw(t, label+"_port")
			add(3, []byte{byte(p >> 8), byte(p)})
		}
		if rapid.Bool().Draw(t, label+"_p4") {
			add(4, genBytes(t, label+"_v4", 4*rapid.IntRange(1, 3).Draw(t, label+"_nv4")))
		}
		if rapid.Bool().Draw(t, label+"_p5") {
			add(5, genBytes(t, label+"_ech", rapid.IntRange(1, 80).Draw(t, label+"_echl")))
		}
		if rapid.Bool().Draw(t, label+"_p6") {
			add(6, genBytes(t, label+"_v6", 16*rapid.IntRange(1, 3).Draw(t, label+"_nv6")))
		}
		if rapid.Bool().Draw(t, label+"_p7") {
			add(7, []byte("/dns-query{?dns}"))
		}
		if rapid.Bool().Draw(t, label+"_punk") {
			add(uint16(rapid.IntRange(9, 65534).Draw(t, label+"_unkkey")), genBytes(t, label+"_unk", rapid.IntRange(0, 20).Draw(t, label+"_unkl")))
		}
		if len(mandatory) > 0 {
			params = append([]dnsmessage.SVCParam{{Key: 0, Value: mandatory}}, params...)
		}
		sv := dnsmessage.SVCBResource{Priority: prio, Target: n, Params: params}
		if k == "SVCB" {
			x.Body, x.Want.Type = &sv, 64
			w := dns.SVCB{Priority: prio, Target: s}
			for _, p := range params {
				w.Params = append(w.Params, dns.SVCBParam{Key: uint16(p.Key), Value: p.Value})
			}
			x.Want.Data = w
		} else {
			x.Body, x.Want.Type = &dnsmessage.HTTPSResource{SVCBResource: sv}, 65
			w, err := HTTPSFromParams(prio, s, params)
			if err != nil {
				return x, err
			}
			x.Want.Data = w
		}
	case "UNKNOWN":
		ty := uint16(rapid.SampledFrom([]int{99, 13, 17, 251, 65280}).Draw(t, label+"_unktype"))
		d := genBytes(t, label+"_unkd", rapid.IntRange(0, 40).Draw(t, label+"_unkl"))
		x.Body, x.Want.Type, x.Want.Data = &dnsmessage.UnknownResource{Type: dnsmessage.Type(ty), Data: d}, ty, d
	case "OPT":
		var o dnsmessage.OPTResource
		var w []dns.Option
		for i, n := 0, rapid.IntRange(0, 3).Draw(t, label+"_nopt"); i < n; i++ {
			c, d := uint16(rapid.IntRange(0, 20).Draw(t, label+"_oc")), genBytes(t, label+"_od", rapid.IntRange(0, 20).Draw(t, label+"_ol"))
			o.Options = append(o.Options, dnsmessage.Option{Code: c, Data: d})
			w = append(w, dns.Option{Code: c, Data: d})
		}
		x.Header.Name = dnsmessage.MustNewName(".")
		ext := rapid.IntRange(0, 255).Draw(t, label+"_extrcode")
		x.Header.Class = dnsmessage.Class(rapid.IntRange(512, 4096).Draw(t, label+"_udp"))
		x.Header.TTL = uint32(ext)<<24 | uint32(rapid.IntRange(0, 1).Draw(t, label+"_do"))<<15
		x.Body = &o
		x.Want = dns.RR{Name: "", Type: 41, Class: uint16(x.Header.Class), TTL: x.Header.TTL, Data: w}
	}
	x.Header.Type = dnsmessage.Type(x.Want.Type)
	return x, nil
}

// BuildX builds a packet with dnsmessage.Builder.
func BuildX(h dnsmessage.Header, qs []dnsmessage.Question, secs [3][]XRecord, compress bool) ([]byte, error) {
	b := dnsmessage.NewBuilder(nil, h)
	if compress {
		b.EnableCompression()
	}
	if err := b.StartQuestions(); err != nil {
		return nil, err
	}
	for _, q := range qs {
		if err := b.Question(q); err != nil {
			return nil, err
		}
	}
	starts := []func() error{b.StartAnswers, b.StartAuthorities, b.StartAdditionals}
	for s := 0; s < 3; s++ {
		if err := starts[s](); err != nil {
			return nil, err
		}
		for _, r := range secs[s] {
			var err error
			switch body := r.Body.(type) {
			case *dnsmessage.AResource:
				err = b.AResource(r.Header, *body)
			case *dnsmessage.AAAAResource:
				err = b.AAAAResource(r.Header, *body)
			case *dnsmessage.NSResource:
				err = b.NSResource(r.Header, *body)
			case *dnsmessage.CNAMEResource:
				err = b.CNAMEResource(r.Header, *body)
			case *dnsmessage.PTRResource:
				err = b.PTRResource(r.Header, *body)
			case *dnsmessage.MXResource:
				err = b.MXResource(r.Header, *body)
			case *dnsmessage.SOAResource:
				err = b.SOAResource(r.Header, *body)
			case *dnsmessage.TXTResource:
				err = b.TXTResource(r.Header, *body)
			case *dnsmessage.SRVResource:
				err = b.SRVResource(r.Header, *body)
			case *dnsmessage.SVCBResource:
				err = b.SVCBResource(r.Header, *body)
			case *dnsmessage.HTTPSResource:
				err = b.HTTPSResource(r.Header, *body)
			case *dnsmessage.OPTResource:
				err = b.OPTResource(r.Header, *body)
			case *dnsmessage.UnknownResource:
				err = b.UnknownResource(r.Header, *body)
			default:
				err = fmt.Errorf("unhandled %T", body)
			}
			if err != nil {
				return nil, err
			}
		}
	}
	return b.Finish()
}

// XName exposes the name conversion.
func XName(n string) (dnsmessage.Name, error) { return xname(n) }
