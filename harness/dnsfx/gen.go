// Package dnsfx holds the DNS fixtures of the harness: message generators,
// conversion to/from golang.org/x/net/dns/dnsmessage (the independent codec),
// a zone model with a fake DoH server, and reference resolution functions.
package dnsfx

import (
	"fmt"
	"net"
	"strings"

	"github.com/c2FmZQ/ech/dns"
	"pgregory.net/rapid"
)

func genBytes(t *rapid.T, label string, n int) []byte {
	seed := rapid.Uint64().Draw(t, label)
	b := make([]byte, n)
	for i := range b {
		seed = seed*6364136223846793005 + 1442695040888963407
		b[i] = byte(seed >> 56)
	}
	return b
}

// GenLabelBytes draws a label of 1..max bytes: LDH mostly, arbitrary bytes
// except '.' sometimes.
func GenLabelBytes(t *rapid.T, label string, max int) string {
	n := rapid.IntRange(1, max).Draw(t, label+"_len")
	if rapid.IntRange(0, 4).Draw(t, label+"_raw") == 0 {
		b := genBytes(t, label+"_rawb", n)
		for i := range b {
			if b[i] == '.' {
				b[i] = '_'
			}
		}
		return string(b)
	}
	const cs = "abcdefghijklmnopqrstuvwxyz0123456789-_"
	b := genBytes(t, label+"_b", n)
	for i := range b {
		b[i] = cs[int(b[i])%len(cs)]
	}
	return string(b)
}

// GenWireName draws a domain name in the package's convention (no trailing
// dot, "" = root): 0..127 labels, wire length <= 255.
func GenWireName(t *rapid.T, label string) string {
	switch rapid.IntRange(0, 9).Draw(t, label+"_class") {
	case 0:
		return ""
	case 1: // maximal: wire length 255 = presentation 253
		var labels []string
		rem := 253
		for rem > 0 {
			l := 63
			if rem < 63 {
				l = rem
			}
			lab := GenLabelBytes(t, fmt.Sprintf("%s_m%d", label, len(labels)), l)
			for len(lab) < l {
				lab += "x"
			}
			labels = append(labels, lab)
			rem -= l + 1
			if rem == 0 { // would end with a dot: shorten previous
				break
			}
		}
		n := strings.Join(labels, ".")
		if len(n) > 253 {
			n = n[:253]
		}
		return strings.TrimRight(n, ".")
	case 2: // many one-byte labels
		k := rapid.IntRange(20, 127).Draw(t, label+"_many")
		labels := make([]string, k)
		for i := range labels {
			labels[i] = string(rune('a' + i%26))
		}
		return strings.Join(labels, ".")
	}
	k := rapid.IntRange(1, 5).Draw(t, label+"_nl")
	var labels []string
	total := 0
	for i := 0; i < k; i++ {
		l := GenLabelBytes(t, fmt.Sprintf("%s_l%d", label, i), 20)
		if total+len(l)+1 > 253 {
			break
		}
		labels = append(labels, l)
		total += len(l) + 1
	}
	return strings.Join(labels, ".")
}

// GenHTTPS draws an HTTPS record value in the decoder's canonical form.
func GenHTTPS(t *rapid.T, label string) dns.HTTPS {
	var h dns.HTTPS
	h.Priority = uint16(rapid.IntRange(0, 5).Draw(t, label+"_prio"))
	if rapid.IntRange(0, 9).Draw(t, label+"_prio_any") == 0 {
		h.Priority = uint16(rapid.IntRange(0, 65535).Draw(t, label+"_prio_v"))
	}
	if rapid.Bool().Draw(t, label+"_has_target") {
		h.Target = GenWireName(t, label+"_target")
	}
	if rapid.Bool().Draw(t, label+"_alpn") {
		n := rapid.IntRange(1, 5).Draw(t, label+"_alpn_n")
		for i := 0; i < n; i++ {
			if rapid.IntRange(0, 3).Draw(t, label+"_alpn_raw") == 0 {
				h.ALPN = append(h.ALPN, string(genBytes(t, label+"_alpn_b", rapid.IntRange(1, 255).Draw(t, label+"_alpn_l"))))
			} else {
				h.ALPN = append(h.ALPN, rapid.SampledFrom([]string{"h2", "h3", "http/1.1", "dot"}).Draw(t, label+"_alpn_v"))
			}
		}
	}
	h.NoDefaultALPN = rapid.Bool().Draw(t, label+"_nda")
	if rapid.Bool().Draw(t, label+"_has_port") {
		h.Port = uint16(rapid.IntRange(1, 65535).Draw(t, label+"_port"))
	}
	for i, n := 0, rapid.IntRange(0, 3).Draw(t, label+"_v4n"); i < n; i++ {
		h.IPv4Hint = append(h.IPv4Hint, net.IP(genBytes(t, label+"_v4", 4)))
	}
	for i, n := 0, rapid.IntRange(0, 3).Draw(t, label+"_v6n"); i < n; i++ {
		h.IPv6Hint = append(h.IPv6Hint, genV6(t, label+"_v6"))
	}
	if rapid.Bool().Draw(t, label+"_has_ech") {
		h.ECH = genBytes(t, label+"_ech", rapid.IntRange(1, 120).Draw(t, label+"_echl"))
	}
	return h
}

// GenRR draws a resource record of a type the package's encoder supports.
func GenRR(t *rapid.T, label string, allowOPT bool) dns.RR {
	rr := dns.RR{Name: GenWireName(t, label+"_owner"), Class: 1, TTL: uint32(rapid.Uint32().Draw(t, label+"_ttl"))}
	if rapid.IntRange(0, 9).Draw(t, label+"_class") == 0 {
		rr.Class = uint16(rapid.IntRange(0, 65535).Draw(t, label+"_classv"))
	}
	kinds := []uint16{1, 28, 2, 5, 12, 65}
	if allowOPT {
		kinds = append(kinds, 41)
	}
	rr.Type = kinds[rapid.IntRange(0, len(kinds)-1).Draw(t, label+"_type")]
	switch rr.Type {
	case 1:
		rr.Data = net.IP(genBytes(t, label+"_a", 4))
	case 28:
		rr.Data = genV6(t, label+"_aaaa")
	case 2, 5, 12:
		rr.Data = GenWireName(t, label+"_rdname")
	case 65:
		rr.Data = GenHTTPS(t, label+"_https")
	case 41:
		rr.Name = ""
		var opts []dns.Option
		for i, n := 0, rapid.IntRange(0, 3).Draw(t, label+"_nopt"); i < n; i++ {
			opts = append(opts, dns.Option{Code: uint16(rapid.IntRange(0, 20).Draw(t, label+"_optc")), Data: genBytes(t, label+"_optd", rapid.IntRange(0, 30).Draw(t, label+"_optl"))})
		}
		rr.Data = opts
	}
	return rr
}

// GenMessage draws a message made of supported record types.
func GenMessage(t *rapid.T, label string) *dns.Message {
	m := &dns.Message{
		ID: uint16(rapid.IntRange(0, 65535).Draw(t, label+"_id")),
		QR: uint8(rapid.IntRange(0, 1).Draw(t, label+"_qr")), OpCode: uint8(rapid.IntRange(0, 15).Draw(t, label+"_op")),
		AA: uint8(rapid.IntRange(0, 1).Draw(t, label+"_aa")), TC: uint8(rapid.IntRange(0, 1).Draw(t, label+"_tc")),
		RD: uint8(rapid.IntRange(0, 1).Draw(t, label+"_rd")), RA: uint8(rapid.IntRange(0, 1).Draw(t, label+"_ra")),
		RCode: uint8(rapid.IntRange(0, 15).Draw(t, label+"_rcode")),
	}
	for i, n := 0, rapid.IntRange(0, 2).Draw(t, label+"_nq"); i < n; i++ {
		m.Question = append(m.Question, dns.Question{Name: GenWireName(t, fmt.Sprintf("%s_q%d", label, i)),
			Type: uint16(rapid.SampledFrom([]int{1, 28, 65, 5, 255, 64}).Draw(t, label+"_qt")), Class: 1})
	}
	opt := false
	for s := 0; s < 3; s++ {
		n := rapid.IntRange(0, 4).Draw(t, fmt.Sprintf("%s_n%d", label, s))
		for i := 0; i < n; i++ {
			rr := GenRR(t, fmt.Sprintf("%s_s%d_%d", label, s, i), s == 2 && !opt)
			if rr.Type == 41 {
				opt = true
			}
			switch s {
			case 0:
				m.Answer = append(m.Answer, rr)
			case 1:
				m.Authority = append(m.Authority, rr)
			default:
				m.Additional = append(m.Additional, rr)
			}
		}
	}
	return m
}

// Canon renders a message canonically (nil == empty) for comparison.
func Canon(m *dns.Message) string {
	var b strings.Builder
	fmt.Fprintf(&b, "id=%d qr=%d op=%d aa=%d tc=%d rd=%d ra=%d rc=%d\n", m.ID, m.QR, m.OpCode, m.AA, m.TC, m.RD, m.RA, m.RCode)
	for _, q := range m.Question {
		fmt.Fprintf(&b, "Q %q %d %d\n", q.Name, q.Type, q.Class)
	}
	for si, sec := range [][]dns.RR{m.Answer, m.Authority, m.Additional} {
		for _, rr := range sec {
			fmt.Fprintf(&b, "S%d %q %d %d %d %s\n", si, rr.Name, rr.Type, rr.Class, rr.TTL, CanonData(rr.Data))
		}
	}
	return b.String()
}

// CanonData renders record data canonically, including its dynamic type.
func CanonData(d any) string {
	switch v := d.(type) {
	case net.IP:
		return fmt.Sprintf("ip:%x", []byte(v))
	case string:
		return fmt.Sprintf("name:%q", v)
	case []dns.Option:
		s := "opt:"
		for _, o := range v {
			s += fmt.Sprintf("[%d %x]", o.Code, o.Data)
		}
		return s
	case dns.HTTPS:
		s := fmt.Sprintf("https:%d %q alpn=%q nda=%v port=%d v4=", v.Priority, v.Target, v.ALPN, v.NoDefaultALPN, v.Port)
		if len(v.ALPN) == 0 {
			s = fmt.Sprintf("https:%d %q alpn=[] nda=%v port=%d v4=", v.Priority, v.Target, v.NoDefaultALPN, v.Port)
		}
		for _, ip := range v.IPv4Hint {
			s += fmt.Sprintf("%x,", []byte(ip))
		}
		s += " v6="
		for _, ip := range v.IPv6Hint {
			s += fmt.Sprintf("%x,", []byte(ip))
		}
		s += fmt.Sprintf(" ech=%x", v.ECH)
		return s
	case dns.SVCB:
		s := fmt.Sprintf("svcb:%d %q", v.Priority, v.Target)
		for _, p := range v.Params {
			s += fmt.Sprintf(" %d=%x", p.Key, p.Value)
		}
		return s
	case dns.MX:
		return fmt.Sprintf("mx:%d %q", v.Preference, v.Exchange)
	case dns.SOA:
		return fmt.Sprintf("soa:%q %q %d %d %d %d %d", v.MName, v.RName, v.Serial, v.Refresh, v.Retry, v.Expire, v.Minimum)
	case dns.TXT:
		s := "txt:"
		for _, x := range v {
			s += fmt.Sprintf("%q,", x)
		}
		return s
	case dns.SRV:
		return fmt.Sprintf("srv:%d %d %d %q", v.Priority, v.Weight, v.Port, v.Target)
	case []byte:
		return fmt.Sprintf("raw:%x", v)
	case nil:
		return "nil"
	}
	return fmt.Sprintf("other(%T):%v", d, d)
}

// genV6 draws a 16-byte address; one in four is an IPv4-mapped address
// (::ffff:a.b.c.d), which is a perfectly valid AAAA / ipv6hint value.
func genV6(t *rapid.T, label string) net.IP {
	b := genBytes(t, label, 16)
	if rapid.IntRange(0, 3).Draw(t, label+"_mapped") == 0 {
		copy(b, []byte{0, 0, 0, 0, 0, 0, 0, 0, 0, 0, 0xff, 0xff})
	}
	return net.IP(b)
}
