package dnsfx

import (
	"fmt"
	"net"
	"sort"
	"strings"
	"sync"

	"github.com/c2FmZQ/ech/dns"
	"golang.org/x/net/dns/dnsmessage"
)

// ZRec is one record of the zone with its own TTL.
type ZRec struct {
	TTL   uint32
	IP    net.IP    // A / AAAA
	CNAME string    // CNAME
	HTTPS dns.HTTPS // HTTPS
	// Mandatory: the HTTPS record also carries the "mandatory" SvcParam (key 0), naming
	// every other parameter it has (RFC 9460 section 8; dns.HTTPS has no field for it)
	Mandatory bool
}

// Zone is the universe of DNS data behind the fake DoH server.
type Zone struct {
	mu          sync.Mutex
	A           map[string][]ZRec
	AAAA        map[string][]ZRec
	CNAME       map[string]ZRec
	HTTPS       map[string][]ZRec
	RCode       map[string]int // key name|type -> forced RCODE (no answers)
	HTTPErr     map[string]int // key name|type -> HTTP status to answer with
	Poison      []PoisonRec    // records for unrelated owners mixed into every answer
	Version     int
	PoisonFirst bool
}

// PoisonRec is an answer record owned by a name nobody asked for.
type PoisonRec struct {
	Owner string
	Type  uint16
	Rec   ZRec
}

func NewZone() *Zone {
	return &Zone{A: map[string][]ZRec{}, AAAA: map[string][]ZRec{}, CNAME: map[string]ZRec{}, HTTPS: map[string][]ZRec{}, RCode: map[string]int{}, HTTPErr: map[string]int{}}
}

func tname(t uint16) string {
	switch t {
	case 1:
		return "A"
	case 28:
		return "AAAA"
	case 65:
		return "HTTPS"
	case 5:
		return "CNAME"
	}
	return fmt.Sprint(t)
}

// Key builds the RCode/HTTPErr map key.
func Key(name string, typ uint16) string { return strings.ToLower(name) + "|" + tname(typ) }

// Exists reports whether the zone has any data for the name.
func (z *Zone) Exists(name string) bool {
	_, c := z.CNAME[name]
	return c || len(z.A[name]) > 0 || len(z.AAAA[name]) > 0 || len(z.HTTPS[name]) > 0
}

// AnsRec is one answer record in the model's view of a response.
type AnsRec struct {
	Owner string
	Type  uint16
	Rec   ZRec
}

// Answer computes, like a recursive resolver, the answer section for a
// question: the CNAME chain first, then the records of the type at its end.
func (z *Zone) Answer(name string, typ uint16) (rcode int, ans []AnsRec) {
	if rc, ok := z.RCode[Key(name, typ)]; ok {
		return rc, nil
	}
	// names compare case-insensitively (RFC 4343); the zone's own keys are lower case and
	// the answer spells the asked name the way the question did
	asked := name
	name = strings.ToLower(name)
	spell := func(n string) string {
		if n == name {
			return asked
		}
		return n
	}
	cur := name
	seen := map[string]bool{}
	exists := false
	for i := 0; i < 10; i++ {
		if z.Exists(cur) {
			exists = true
		}
		c, ok := z.CNAME[cur]
		if !ok || seen[cur] {
			break
		}
		seen[cur] = true
		ans = append(ans, AnsRec{spell(cur), 5, c})
		cur = c.CNAME
	}
	var recs []ZRec
	switch typ {
	case 1:
		recs = z.A[cur]
	case 28:
		recs = z.AAAA[cur]
	case 65:
		recs = z.HTTPS[cur]
	}
	for _, r := range recs {
		ans = append(ans, AnsRec{spell(cur), typ, r})
	}
	if !exists && len(ans) == 0 {
		return 3, nil
	}
	return 0, ans
}

// HTTPSParams converts an HTTPS value to SvcParams in increasing key order.
func HTTPSParams(h dns.HTTPS) []dnsmessage.SVCParam {
	var p []dnsmessage.SVCParam
	if len(h.ALPN) > 0 {
		var v []byte
		for _, a := range h.ALPN {
			v = append(v, byte(len(a)))
			v = append(v, a...)
		}
		p = append(p, dnsmessage.SVCParam{Key: 1, Value: v})
	}
	if h.NoDefaultALPN {
		p = append(p, dnsmessage.SVCParam{Key: 2})
	}
	if h.Port > 0 {
		p = append(p, dnsmessage.SVCParam{Key: 3, Value: []byte{byte(h.Port >> 8), byte(h.Port)}})
	}
	if len(h.IPv4Hint) > 0 {
		var v []byte
		for _, ip := range h.IPv4Hint {
			v = append(v, ip...)
		}
		p = append(p, dnsmessage.SVCParam{Key: 4, Value: v})
	}
	if len(h.ECH) > 0 {
		p = append(p, dnsmessage.SVCParam{Key: 5, Value: h.ECH})
	}
	if len(h.IPv6Hint) > 0 {
		var v []byte
		for _, ip := range h.IPv6Hint {
			v = append(v, ip...)
		}
		p = append(p, dnsmessage.SVCParam{Key: 6, Value: v})
	}
	return p
}

// Packet builds the DoH response for a query with dnsmessage (independent of
// the package under test). answers may be nil.
func Packet(q Query, rcode int, ans []AnsRec) ([]byte, error) {
	return PacketAdd(q, rcode, ans, nil)
}

// PacketAdd is Packet with records for the additional section as well (a server may
// volunteer addresses and HTTPS records there, RFC 9460 section 4.2).
func PacketAdd(q Query, rcode int, ans, add []AnsRec) ([]byte, error) {
	h := dnsmessage.Header{Response: true, RecursionDesired: true, RecursionAvailable: true, RCode: dnsmessage.RCode(rcode & 0xf)}
	b := dnsmessage.NewBuilder(nil, h)
	b.EnableCompression()
	qn, err := xname(q.Name)
	if err != nil {
		return nil, err
	}
	if err := b.StartQuestions(); err != nil {
		return nil, err
	}
	if err := b.Question(dnsmessage.Question{Name: qn, Type: dnsmessage.Type(q.Type), Class: dnsmessage.ClassINET}); err != nil {
		return nil, err
	}
	if err := b.StartAnswers(); err != nil {
		return nil, err
	}
	emit := func(a AnsRec) error {
		on, err := xname(a.Owner)
		if err != nil {
			return err
		}
		hdr := dnsmessage.ResourceHeader{Name: on, Class: dnsmessage.ClassINET, TTL: a.Rec.TTL}
		switch a.Type {
		case 1:
			var v [4]byte
			copy(v[:], a.Rec.IP)
			return b.AResource(hdr, dnsmessage.AResource{A: v})
		case 28:
			var v [16]byte
			copy(v[:], a.Rec.IP)
			return b.AAAAResource(hdr, dnsmessage.AAAAResource{AAAA: v})
		case 5:
			cn, e := xname(a.Rec.CNAME)
			if e != nil {
				return e
			}
			return b.CNAMEResource(hdr, dnsmessage.CNAMEResource{CNAME: cn})
		case 64, 65:
			tn, e := xname(a.Rec.HTTPS.Target)
			if e != nil {
				return e
			}
			params := HTTPSParams(a.Rec.HTTPS)
			if a.Rec.Mandatory && len(params) > 0 && a.Rec.HTTPS.Priority > 0 {
				var v []byte
				for _, p := range params {
					if p.Key != 2 { // no-default-alpn is never listed: it is not optional-to-understand on its own
						v = append(v, byte(p.Key>>8), byte(p.Key))
					}
				}
				if len(v) > 0 {
					params = append([]dnsmessage.SVCParam{{Key: 0, Value: v}}, params...)
				}
			}
			sv := dnsmessage.SVCBResource{Priority: a.Rec.HTTPS.Priority, Target: tn, Params: params}
			if a.Type == 64 {
				return b.SVCBResource(hdr, sv)
			}
			return b.HTTPSResource(hdr, dnsmessage.HTTPSResource{SVCBResource: sv})
		}
		return nil
	}
	for _, a := range ans {
		if err := emit(a); err != nil {
			return nil, err
		}
	}
	if rcode > 15 || len(add) > 0 {
		if err := b.StartAdditionals(); err != nil {
			return nil, err
		}
	}
	for _, a := range add {
		if err := emit(a); err != nil {
			return nil, err
		}
	}
	if rcode > 15 {
		var rh dnsmessage.ResourceHeader
		if err := rh.SetEDNS0(1232, dnsmessage.RCode(rcode), false); err != nil {
			return nil, err
		}
		if err := b.OPTResource(rh, dnsmessage.OPTResource{}); err != nil {
			return nil, err
		}
	}
	return b.Finish()
}

// Responder returns the DoH responder for the zone. Every response is also
// recorded in resp (if non-nil) by the caller's hook.
func (z *Zone) Responder(hook func(q Query, rcode int, ans []AnsRec)) func(q Query) (int, []byte) {
	return func(q Query) (int, []byte) {
		z.mu.Lock()
		defer z.mu.Unlock()
		if !q.Valid {
			pkt, _ := Packet(Query{Name: "invalid", Type: 1}, 1, nil)
			if hook != nil {
				hook(q, 1, nil)
			}
			return 200, pkt
		}
		if st, ok := z.HTTPErr[Key(q.Name, q.Type)]; ok {
			if hook != nil {
				hook(q, -st, nil)
			}
			return st, []byte("error")
		}
		rc, ans := z.Answer(q.Name, q.Type)
		full := ans
		if rc == 0 && len(z.Poison) > 0 {
			var p []AnsRec
			for _, pr := range z.Poison {
				owner := pr.Owner
				if owner == "$LOOKALIKE" {
					switch {
					case strings.ContainsAny(q.Name, "sS"):
						i := strings.IndexAny(q.Name, "sS")
						owner = q.Name[:i] + "\u017f" + q.Name[i+1:]
					case strings.ContainsAny(q.Name, "kK"):
						i := strings.IndexAny(q.Name, "kK")
						owner = q.Name[:i] + "\u212a" + q.Name[i+1:]
					default:
						owner = "evil.example"
					}
					if !validDNS(strings.TrimSuffix(owner, ".")) {
						owner = "evil.example" // the longer character does not fit the label
					}
				}
				p = append(p, AnsRec{owner, pr.Type, pr.Rec})
			}
			if z.PoisonFirst {
				full = append(p, ans...)
			} else {
				full = append(append([]AnsRec{}, ans...), p...)
			}
		}
		pkt, err := Packet(q, rc, full)
		if err != nil {
			pkt, _ = Packet(Query{Name: "error", Type: 1}, 2, nil)
			rc, ans = 2, nil
		}
		if hook != nil {
			hook(q, rc, ans)
		}
		return 200, pkt
	}
}

// Lock / Unlock let tests mutate the zone while the server is running.
func (z *Zone) Lock()   { z.mu.Lock() }
func (z *Zone) Unlock() { z.mu.Unlock() }

// Describe renders the zone for samples and replays.
func (z *Zone) Describe() []string {
	var out []string
	for n, c := range z.CNAME {
		out = append(out, fmt.Sprintf("%s CNAME %s ttl=%d", n, c.CNAME, c.TTL))
	}
	for n, l := range z.A {
		for _, r := range l {
			out = append(out, fmt.Sprintf("%s A %v ttl=%d", n, r.IP, r.TTL))
		}
	}
	for n, l := range z.AAAA {
		for _, r := range l {
			out = append(out, fmt.Sprintf("%s AAAA %v ttl=%d", n, r.IP, r.TTL))
		}
	}
	for n, l := range z.HTTPS {
		for _, r := range l {
			out = append(out, fmt.Sprintf("%s HTTPS %s ttl=%d", n, r.HTTPS.String(), r.TTL))
		}
	}
	for k, v := range z.RCode {
		out = append(out, fmt.Sprintf("%s RCODE %d", k, v))
	}
	for k, v := range z.HTTPErr {
		out = append(out, fmt.Sprintf("%s HTTP %d", k, v))
	}
	for _, p := range z.Poison {
		out = append(out, fmt.Sprintf("POISON %s %s", p.Owner, tname(p.Type)))
	}
	sort.Strings(out)
	return out
}
