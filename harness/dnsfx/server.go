package dnsfx

import (
	"io"
	"net"
	"net/http"
	"strconv"
	"sync"
	"time"

	"golang.org/x/net/dns/dnsmessage"
)

// Query is one DoH request as seen by the fake server.
type Query struct {
	Name  string // no trailing dot
	Type  uint16
	Raw   []byte
	Valid bool // parsed by dnsmessage without error and holds exactly one question
	Err   string
	T     time.Time
}

// Server is a fake RFC 8484 DoH server on 127.0.0.1 (keep-alives off because
// dns.DoH builds a new pooled client per query).
type Server struct {
	URL     string
	ln      net.Listener
	srv     *http.Server
	mu      sync.Mutex
	Log     []Query
	Respond func(q Query) (status int, body []byte)
	Now     func() time.Time
	// Age, when > 0, is sent as the HTTP Age header of every answer (an answer
	// served through an HTTP cache, RFC 8484 section 5.1)
	Age int
}

// NewServer starts a server; respond is called for every request.
func NewServer(respond func(q Query) (int, []byte)) (*Server, error) {
	ln, err := net.Listen("tcp", "127.0.0.1:0")
	if err != nil {
		return nil, err
	}
	s := &Server{ln: ln, Respond: respond, Now: time.Now}
	s.URL = "http://" + ln.Addr().String() + "/dns-query"
	s.srv = &http.Server{Handler: http.HandlerFunc(s.handle)}
	s.srv.SetKeepAlivesEnabled(false)
	go s.srv.Serve(ln)
	return s, nil
}

func (s *Server) handle(w http.ResponseWriter, r *http.Request) {
	body, _ := io.ReadAll(io.LimitReader(r.Body, 1<<17))
	q := Query{Raw: body, T: s.Now()}
	var p dnsmessage.Parser
	if _, err := p.Start(body); err != nil {
		q.Err = err.Error()
	} else if qs, err := p.AllQuestions(); err != nil {
		q.Err = err.Error()
	} else if len(qs) != 1 {
		q.Err = "question count " + strconv.Itoa(len(qs))
	} else {
		q.Name, q.Type, q.Valid = fromX(qs[0].Name), uint16(qs[0].Type), true
	}
	s.mu.Lock()
	s.Log = append(s.Log, q)
	respond := s.Respond
	age := s.Age
	s.mu.Unlock()
	status, out := respond(q)
	if age > 0 {
		w.Header().Set("Age", strconv.Itoa(age))
	}
	w.Header().Set("Content-Type", "application/dns-message")
	w.Header().Set("Content-Length", strconv.Itoa(len(out)))
	w.WriteHeader(status)
	w.Write(out)
}

// SetRespond swaps the responder.
func (s *Server) SetRespond(f func(q Query) (int, []byte)) { s.mu.Lock(); s.Respond = f; s.mu.Unlock() }

// SetAge sets the Age header value (0 = none).
func (s *Server) SetAge(a int) { s.mu.Lock(); s.Age = a; s.mu.Unlock() }

// TakeLog returns and clears the query log.
func (s *Server) TakeLog() []Query {
	s.mu.Lock()
	defer s.mu.Unlock()
	l := s.Log
	s.Log = nil
	return l
}

// Close stops the server.
func (s *Server) Close() { s.srv.Close() }
