// Package wire is a scripted in-memory transport implementing net.Conn. It is
// buffered (a write never blocks), channel based (a blocked reader is durably
// blocked, so it works inside testing/synctest bubbles) and logs every Write,
// Close and Set*Deadline call with a timestamp.
package wire

import (
	"errors"
	"io"
	"net"
	"os"
	"sync"
	"time"
)

// Event is one logged call on the transport.
type Event struct {
	Kind  string    `json:"kind"` // write, close, setdeadline, setreaddeadline, setwritedeadline, read
	Data  []byte    `json:"data,omitempty"`
	N     int       `json:"n,omitempty"`
	T     time.Time `json:"t"`
	DL    time.Time `json:"dl,omitempty"`
	After bool      `json:"after"` // after MarkReturned was called
}

// ErrTimeout is what an expired deadline returns (a net.Error with Timeout() true that
// wraps os.ErrDeadlineExceeded); it can also be used as a scripted end error.
var ErrTimeout error = timeoutErr{}

// ErrInjected is the marker error used for injected transport failures.
var ErrInjected = errors.New("wire: injected transport error")

// Conn is the scripted transport.
type Conn struct {
	mu     sync.Mutex
	wake   chan struct{}
	in     []byte
	endErr error // returned by Read when in is exhausted; nil = block
	chunks []int // sizes for successive reads (0 = unlimited)
	ci     int
	rest   int // chunk size once chunks is exhausted (0 = unlimited)
	closed bool
	rdl    time.Time
	wdl    time.Time
	after  bool
	parked int // readers currently blocked waiting for data

	peer        *Conn           // buffered pipe mode: writes are fed to the peer
	NoLog       bool            // do not keep Written / write events (long streams)
	ErrWithData bool            // deliver the final bytes and the end error in the same Read call (io.Reader allows it)
	OnWrite     func(total int) // called (without the lock) before Write returns, with the bytes written so far
	BlockWrites bool            // the peer is not draining: Write blocks until the write deadline passes or Close
	Events      []Event
	Written     []byte
	WriteFailAt int // -1 = never; otherwise total offset at which writes fail
	WriteErr    error
	ReadCalls   int
	BytesRead   int
}

type addr struct{}

func (addr) Network() string { return "wire" }
func (addr) String() string  { return "wire" }

// New returns a transport whose peer has already sent data. When the data is
// exhausted Read returns endErr (nil means: block until Feed/Finish/deadline/Close).
func New(data []byte, endErr error) *Conn {
	return &Conn{in: append([]byte{}, data...), endErr: endErr, wake: make(chan struct{}), WriteFailAt: -1}
}

// SetChunks sets the maximum size of successive Read results; rest applies
// once the list is exhausted (0 = unlimited).
func (c *Conn) SetChunks(ch []int, rest int) {
	c.mu.Lock()
	c.chunks, c.ci, c.rest = ch, 0, rest
	c.mu.Unlock()
}

func (c *Conn) notify() {
	close(c.wake)
	c.wake = make(chan struct{})
}

// Feed makes more peer data available.
func (c *Conn) Feed(b []byte) {
	c.mu.Lock()
	c.in = append(c.in, b...)
	c.notify()
	c.mu.Unlock()
}

// Finish sets the error returned once the buffered data is consumed.
func (c *Conn) Finish(err error) {
	c.mu.Lock()
	c.endErr = err
	c.notify()
	c.mu.Unlock()
}

// MarkReturned flags all later events as "after".
func (c *Conn) MarkReturned() { c.mu.Lock(); c.after = true; c.mu.Unlock() }

type timeoutErr struct{}

func (timeoutErr) Error() string   { return "wire: i/o timeout" }
func (timeoutErr) Timeout() bool   { return true }
func (timeoutErr) Temporary() bool { return true }
func (timeoutErr) Unwrap() error   { return os.ErrDeadlineExceeded }

func (c *Conn) Read(p []byte) (int, error) {
	for {
		c.mu.Lock()
		c.ReadCalls++
		if c.closed {
			c.mu.Unlock()
			return 0, net.ErrClosed
		}
		if !c.rdl.IsZero() && !time.Now().Before(c.rdl) {
			c.mu.Unlock()
			return 0, timeoutErr{}
		}
		if len(c.in) > 0 && len(p) > 0 {
			n := len(p)
			if n > len(c.in) {
				n = len(c.in)
			}
			if c.ci < len(c.chunks) {
				if k := c.chunks[c.ci]; k > 0 && k < n {
					n = k
				}
				c.ci++
			} else if c.rest > 0 && c.rest < n {
				n = c.rest
			}
			copy(p, c.in[:n])
			c.in = c.in[n:]
			c.BytesRead += n
			if c.ErrWithData && len(c.in) == 0 && c.endErr != nil {
				err := c.endErr
				c.mu.Unlock()
				return n, err
			}
			c.mu.Unlock()
			return n, nil
		}
		if len(p) == 0 {
			c.mu.Unlock()
			return 0, nil
		}
		if c.endErr != nil {
			err := c.endErr
			c.mu.Unlock()
			return 0, err
		}
		w := c.wake
		dl := c.rdl
		c.mu.Unlock()
		c.park(1)
		if dl.IsZero() {
			<-w
			c.park(-1)
			continue
		}
		tm := time.NewTimer(time.Until(dl))
		select {
		case <-w:
			tm.Stop()
		case <-tm.C:
		}
		c.park(-1)
	}
}

func (c *Conn) Write(p []byte) (int, error) {
	n, err := c.write(p)
	if c.peer != nil && n > 0 {
		c.peer.Feed(p[:n]) // outside c.mu: both ends may write at once
	}
	if c.OnWrite != nil && n > 0 {
		c.mu.Lock()
		total := len(c.Written)
		c.mu.Unlock()
		c.OnWrite(total) // the peer may react to these bytes before the writer gets control back
	}
	return n, err
}

func (c *Conn) write(p []byte) (int, error) {
	for {
		c.mu.Lock()
		if c.closed || !c.BlockWrites || (!c.wdl.IsZero() && !time.Now().Before(c.wdl)) {
			break // c.mu stays held
		}
		w, dl := c.wake, c.wdl
		c.mu.Unlock()
		if dl.IsZero() {
			<-w
			continue
		}
		tm := time.NewTimer(time.Until(dl))
		select {
		case <-w:
			tm.Stop()
		case <-tm.C:
		}
	}
	defer c.mu.Unlock()
	if c.closed {
		return 0, net.ErrClosed
	}
	if !c.wdl.IsZero() && !time.Now().Before(c.wdl) {
		return 0, timeoutErr{}
	}
	n := len(p)
	var err error
	if c.WriteFailAt >= 0 && len(c.Written)+n > c.WriteFailAt {
		n = c.WriteFailAt - len(c.Written)
		if n < 0 {
			n = 0
		}
		err = c.WriteErr
		if err == nil {
			err = ErrInjected
		}
	}
	if !c.NoLog {
		c.Written = append(c.Written, p[:n]...)
		c.Events = append(c.Events, Event{Kind: "write", Data: append([]byte{}, p[:n]...), N: n, T: time.Now(), After: c.after})
	}
	return n, err
}

func (c *Conn) Close() error {
	c.mu.Lock()
	defer c.mu.Unlock()
	c.Events = append(c.Events, Event{Kind: "close", T: time.Now(), After: c.after})
	if c.closed {
		return net.ErrClosed
	}
	c.closed = true
	c.notify()
	if c.peer != nil {
		go c.peer.Finish(io.EOF)
	}
	return nil
}

// CloseWrite makes the transport look like a TCP or unix connection (which have a
// half-close); it only logs the call.
func (c *Conn) CloseWrite() error {
	c.mu.Lock()
	defer c.mu.Unlock()
	c.Events = append(c.Events, Event{Kind: "closewrite", T: time.Now(), After: c.after})
	return nil
}

// Pipe returns the two ends of an in-memory duplex connection with unbounded
// buffering: a Write never blocks (unlike net.Pipe), Read blocks until data,
// EOF from the peer's Close, or a deadline.
func Pipe() (*Conn, *Conn) {
	a, b := New(nil, nil), New(nil, nil)
	a.peer, b.peer = b, a
	a.NoLog, b.NoLog = true, true
	return a, b
}

func (c *Conn) LocalAddr() net.Addr  { return addr{} }
func (c *Conn) RemoteAddr() net.Addr { return addr{} }

func (c *Conn) SetDeadline(t time.Time) error {
	c.mu.Lock()
	defer c.mu.Unlock()
	c.Events = append(c.Events, Event{Kind: "setdeadline", T: time.Now(), DL: t, After: c.after})
	c.rdl, c.wdl = t, t
	c.notify()
	return nil
}

func (c *Conn) SetReadDeadline(t time.Time) error {
	c.mu.Lock()
	defer c.mu.Unlock()
	c.Events = append(c.Events, Event{Kind: "setreaddeadline", T: time.Now(), DL: t, After: c.after})
	c.rdl = t
	c.notify()
	return nil
}

func (c *Conn) SetWriteDeadline(t time.Time) error {
	c.mu.Lock()
	defer c.mu.Unlock()
	c.Events = append(c.Events, Event{Kind: "setwritedeadline", T: time.Now(), DL: t, After: c.after})
	c.wdl = t
	c.notify()
	return nil
}

// Snapshot returns copies of the written bytes and of the event log.
func (c *Conn) Snapshot() ([]byte, []Event) {
	c.mu.Lock()
	defer c.mu.Unlock()
	return append([]byte{}, c.Written...), append([]Event{}, c.Events...)
}

func (c *Conn) park(d int) { c.mu.Lock(); c.parked += d; c.mu.Unlock() }

// Parked reports how many readers are blocked waiting for peer data.
func (c *Conn) Parked() int { c.mu.Lock(); defer c.mu.Unlock(); return c.parked }

// Closed reports whether Close was called.
func (c *Conn) Closed() bool { c.mu.Lock(); defer c.mu.Unlock(); return c.closed }

// Deadlines returns the currently effective read and write deadlines.
func (c *Conn) Deadlines() (time.Time, time.Time) {
	c.mu.Lock()
	defer c.mu.Unlock()
	return c.rdl, c.wdl
}

// Remaining returns the number of peer bytes not yet read.
func (c *Conn) Remaining() int { c.mu.Lock(); defer c.mu.Unlock(); return len(c.in) }
