// Package ev records what a property run actually generated: class counters,
// distinct non-trivial cases, samples, known-finding hits; and writes concrete
// replay files for violations.
package ev

import (
	"encoding/json"
	"fmt"
	"hash/fnv"
	"os"
	"path/filepath"
	"sort"
	"sync"
)

// Rec accumulates the coverage of one property inside one test process.
type Rec struct {
	mu        sync.Mutex
	Prop      string
	evals     int64
	classes   map[string]int64
	distinct  map[uint64]struct{}
	samples   []any
	maxSample int
	known     map[string]int64
	knownWhat map[string]string
	mandatory []string
	rule      string
	extra     map[string]any
}

const maxDistinct = 400000

var (
	regMu sync.Mutex
	reg   = map[string]*Rec{}
)

// Get returns the (process-wide) recorder of a property.
func Get(prop string) *Rec {
	regMu.Lock()
	defer regMu.Unlock()
	if r, ok := reg[prop]; ok {
		return r
	}
	r := &Rec{Prop: prop, classes: map[string]int64{}, distinct: map[uint64]struct{}{}, maxSample: 6,
		known: map[string]int64{}, knownWhat: map[string]string{}, extra: map[string]any{}}
	reg[prop] = r
	return r
}

// Rule states how cases are generated and what makes one non-trivial.
func (r *Rec) Rule(s string) { r.mu.Lock(); r.rule = s; r.mu.Unlock() }

// Mandatory declares classes that must be non-empty for the run to be meaningful.
func (r *Rec) Mandatory(c ...string) { r.mu.Lock(); r.mandatory = c; r.mu.Unlock() }

// Extra stores an additional measured value in the evidence.
func (r *Rec) Extra(k string, v any) { r.mu.Lock(); r.extra[k] = v; r.mu.Unlock() }

// AddExtra adds n to a numeric extra counter.
func (r *Rec) AddExtra(k string, n int64) {
	r.mu.Lock()
	old, _ := r.extra[k].(int64)
	r.extra[k] = old + n
	r.mu.Unlock()
}

func hash(s string) uint64 {
	h := fnv.New64a()
	h.Write([]byte(s))
	return h.Sum64()
}

// Case records one generated case. key is the canonical descriptor used for
// distinctness; nontrivial is the verdict of the property's stated rule.
func (r *Rec) Case(key string, nontrivial bool, classes []string, sample func() any) {
	r.mu.Lock()
	defer r.mu.Unlock()
	r.evals++
	for _, c := range classes {
		r.classes[c]++
	}
	if nontrivial {
		r.classes["nontrivial"]++
		h := hash(key)
		if _, ok := r.distinct[h]; !ok && len(r.distinct) < maxDistinct {
			r.distinct[h] = struct{}{}
			if len(r.samples) < r.maxSample && sample != nil {
				// spread the samples: keep the 1st, then every 2^k-th new distinct case
				n := len(r.distinct)
				if n&(n-1) == 0 {
					r.samples = append(r.samples, sample())
				}
			}
		}
	}
}

// Class bumps class counters outside Case.
func (r *Rec) Class(classes ...string) {
	r.mu.Lock()
	for _, c := range classes {
		r.classes[c]++
	}
	r.mu.Unlock()
}

// KnownHit records that a listed known finding was met (and tolerated).
func (r *Rec) KnownHit(key, what string) {
	r.mu.Lock()
	r.known[key]++
	r.knownWhat[key] = what
	r.mu.Unlock()
}

type shardOut struct {
	Prop      string            `json:"prop"`
	Evals     int64             `json:"evals"`
	Classes   map[string]int64  `json:"classes"`
	Distinct  []uint64          `json:"distinct"`
	Samples   []any             `json:"samples"`
	Known     map[string]int64  `json:"known"`
	KnownWhat map[string]string `json:"known_what"`
	Mandatory []string          `json:"mandatory"`
	Rule      string            `json:"rule"`
	Extra     map[string]any    `json:"extra"`
}

// FlushAll writes every recorder to $VERIF_EV_DIR/<prop>.<pid>.json.
func FlushAll() {
	dir := os.Getenv("VERIF_EV_DIR")
	if dir == "" {
		return
	}
	regMu.Lock()
	defer regMu.Unlock()
	for _, r := range reg {
		r.mu.Lock()
		o := shardOut{Prop: r.Prop, Evals: r.evals, Classes: r.classes, Samples: r.samples, Known: r.known,
			KnownWhat: r.knownWhat, Mandatory: r.mandatory, Rule: r.rule, Extra: r.extra}
		for h := range r.distinct {
			o.Distinct = append(o.Distinct, h)
		}
		sort.Slice(o.Distinct, func(i, j int) bool { return o.Distinct[i] < o.Distinct[j] })
		b, err := json.Marshal(o)
		r.mu.Unlock()
		if err != nil {
			fmt.Fprintf(os.Stderr, "ev: marshal %s: %v\n", r.Prop, err)
			continue
		}
		p := filepath.Join(dir, fmt.Sprintf("%s.%d.json", r.Prop, os.Getpid()))
		if err := os.WriteFile(p, b, 0o644); err != nil {
			fmt.Fprintf(os.Stderr, "ev: write %s: %v\n", p, err)
		}
	}
}

// ---- known findings -------------------------------------------------------

type finding struct {
	Property string `json:"property"`
	Key      string `json:"key"`
	Status   string `json:"status"` // "known" or "fixed"
	What     string `json:"what"`
	Commit   string `json:"commit,omitempty"`
}

var (
	kfOnce sync.Once
	kf     map[string]finding
)

func loadKF() {
	kf = map[string]finding{}
	p := os.Getenv("VERIF_KNOWN_FINDINGS")
	if p == "" {
		p = "/verif/known_findings.json"
	}
	b, err := os.ReadFile(p)
	if err != nil {
		return
	}
	var doc struct {
		Findings []finding `json:"findings"`
	}
	if json.Unmarshal(b, &doc) != nil {
		return
	}
	for _, f := range doc.Findings {
		kf[f.Property+"/"+f.Key] = f
	}
}

// Known reports whether (prop,key) is listed with status "known" in the
// committed known-findings file. Entries with status "fixed" suppress nothing.
func Known(prop, key string) (string, bool) {
	kfOnce.Do(loadKF)
	f, ok := kf[prop+"/"+key]
	if !ok || f.Status != "known" {
		return "", false
	}
	return f.What, true
}

// ---- violations -----------------------------------------------------------

// Failer is the subset of testing.T / rapid.T used here.
type Failer interface {
	Fatalf(format string, args ...any)
	Helper()
}

// Violation writes a concrete replay file and fails the test. Under rapid the
// file is rewritten on every failing re-run, so the final content belongs to
// the shrunk case.
func Violation(t Failer, prop string, replay any, format string, args ...any) {
	t.Helper()
	msg := fmt.Sprintf(format, args...)
	path := WriteReplay(prop, replay, msg)
	t.Fatalf("VERIF-VIOLATION property=%s replay=%s :: %s", prop, path, msg)
}

// WriteReplay stores the replay document and returns its path.
func WriteReplay(prop string, replay any, msg string) string {
	dir := os.Getenv("VERIF_REPLAY_DIR")
	if dir == "" {
		dir = os.TempDir()
	}
	os.MkdirAll(dir, 0o755)
	tag := os.Getenv("VERIF_SHARD_TAG")
	if tag == "" {
		tag = fmt.Sprintf("pid%d", os.Getpid())
	}
	path := filepath.Join(dir, fmt.Sprintf("%s-%s.json", prop, tag))
	doc := map[string]any{"property": prop, "message": msg, "case": replay}
	b, err := json.MarshalIndent(doc, "", " ")
	if err != nil {
		b = []byte(fmt.Sprintf(`{"property":%q,"message":%q,"case":"<unmarshalable: %v>"}`, prop, msg, err))
	}
	os.WriteFile(path, b, 0o644)
	return path
}
