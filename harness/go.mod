module verif/harness

go 1.26.8

require (
	github.com/c2FmZQ/ech v0.3.6
	github.com/c2FmZQ/ech/publish v0.0.0
	golang.org/x/net v0.59.0
	pgregory.net/rapid v1.3.0
)

require (
	github.com/hashicorp/go-cleanhttp v0.5.2 // indirect
	github.com/hashicorp/go-retryablehttp v0.7.8 // indirect
	github.com/hashicorp/golang-lru/v2 v2.0.7 // indirect
	golang.org/x/crypto v0.57.0 // indirect
	golang.org/x/sys v0.48.0 // indirect
)

replace github.com/c2FmZQ/ech => /repo

replace github.com/c2FmZQ/ech/publish => /repo/publish

replace golang.org/x/crypto => golang.org/x/crypto v0.40.0

replace golang.org/x/sys => golang.org/x/sys v0.34.0

replace golang.org/x/text => golang.org/x/text v0.27.0

replace golang.org/x/term => golang.org/x/term v0.6.0
