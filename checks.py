# Per-property configuration of the ./check driver.
# stage: name, run (go test -run regexp), checks{tier: rapid cases per shard}, shards{tier}, timeout{tier}

def rapid_stage(prop, quick, thorough, qshards=2, tshards=16, qto=300, tto=3000, **kw):
    d = {"name": "rapid", "run": "^Test%s$" % prop, "checks": {"quick": quick, "thorough": thorough},
         "shards": {"quick": qshards, "thorough": tshards}, "timeout": {"quick": qto, "thorough": tto}}
    d.update(kw)
    return d

CHECKS = {
    "C11": {
        "stages": [rapid_stage("C11", 1500, 20000),
                   {"name": "corpus", "run": "^FuzzParseConfig$", "shards": {"quick": 1, "thorough": 1}, "timeout": {"quick": 120, "thorough": 120}},
                   {"name": "fuzz", "gofuzz": "^FuzzParseConfig$", "fuzztime": {"thorough": "90s"}, "tiers": ["thorough"], "timeout": {"thorough": 600}}],
        "crash_is_violation": True,
        "design_ref": "DESIGN.md 4 C11",
        "technique": "property-based testing (rapid): two-way differential against an independent draft-section-4 codec, round trips, crypto/tls client+server interop handshakes, prefix/garbage/perturbation operators; native fuzzing of the parser (thorough)",
        "level_text": "Randomised exploration of ConfigSpecs and lists with four oracles (independent codec both ways, round trip, crypto/tls acceptance on both sides incl. a real ECH handshake, parser robustness).",
        "level_note": "Interop cases are restricted to what crypto/tls can use (X25519, valid DNS public name, at least one supported suite); the other cases are codec-only.",
        "assumptions": ["crypto/tls's ECH config validation is the reference for 'accepts'"],
    },
    "C12": {
        "stages": [rapid_stage("C12", 2500, 50000),
                   {"name": "corpus", "run": "^FuzzDecodeMessage$", "shards": {"quick": 1, "thorough": 1}, "timeout": {"quick": 120, "thorough": 120}},
                   {"name": "fuzz", "gofuzz": "^FuzzDecodeMessage$", "fuzztime": {"thorough": "240s"}, "tiers": ["thorough"], "timeout": {"thorough": 900}}],
        "crash_is_violation": True,
        "design_ref": "DESIGN.md 5 C12",
        "technique": "grammar-based adversarial generation (rapid) of compression-pointer graphs and edited valid packets, native coverage-guided fuzzing (thorough), watchdog + allocation bound + type-table oracle, decoded messages driven through the resolver over a loopback DoH server",
        "level_text": "Randomised and coverage-guided search over DNS byte strings with a deterministic cost bound (allocations, decoded name volume) and a 60 s watchdog for non-termination; decoded messages are additionally fed to Resolve/Targets.",
        "level_note": "The allocation bound (1 MiB + 2 KiB per input byte) is the harness's reading of 'small polynomial'.",
        "assumptions": ["the fake DoH server answers every query with the same body"],
    },
    "C13": {
        "stages": [rapid_stage("C13", 2500, 30000)],
        "design_ref": "DESIGN.md 5 C13",
        "technique": "property-based testing (rapid): round trip plus two-way differential against golang.org/x/net/dns/dnsmessage (parser on our bytes, our decoder on Builder packets with compression)",
        "level_text": "Randomised exploration of messages in both directions with an independent RFC 1035/9460 codec as the oracle; AddPadding checked with a metamorphic relation (only the padding option may change).",
        "level_note": "Names with dots inside labels, trailing dots and non-canonical IP lengths are not generated (outside the package's documented name/IP conventions).",
        "assumptions": ["x/net dnsmessage v0.59.0 is correct for the generated packets"],
    },
    "C14": {
        "stages": [rapid_stage("C14", 300, 4000, qshards=4)],
        "design_ref": "DESIGN.md 5 C14",
        "technique": "model-based property testing (rapid): random zones behind a loopback DoH server vs. a reference RFC 9460 resolver over the zone model; query-log invariants; poison markers",
        "level_text": "Randomised exploration of zones x name forms with a reference resolver as the oracle; the server's packets come from an independent codec; every query the resolver sends is checked against the set of names an RFC 9460 resolution may ask.",
        "level_note": "Alias chains deeper than 2 links accept either the full resolution or the documented fall-back; mixed alias/service RRsets and answers with CNAMEs after their targets are not generated.",
        "assumptions": ["the fake server answers like a recursive resolver (CNAME chain then data)", "lower-case host names only"],
    },
    "C15": {
        "stages": [rapid_stage("C15", 10000, 200000)],
        "design_ref": "DESIGN.md 5 C15",
        "technique": "property-based testing (rapid): reference model of Targets, purity by deep snapshot including sentinel-filled spare capacity",
        "level_text": "Randomised exploration of ResolveResults x networks x stop points against a 40-line reference function; purity is checked on a snapshot that includes the memory beyond len of every slice and shared backing arrays.",
        "level_note": "IPv4-mapped 16-byte addresses and Port 0 are not generated (the resolver never produces them).",
        "assumptions": ["ALPN of a target is compared as a set"],
    },
    "C02": {
        "stages": [rapid_stage("C02", 40, 60, tto=3400)],
        "design_ref": "DESIGN.md 4 C02",
        "technique": "property-based testing (rapid) with per-case exhaustive single-bit-flip enumeration and substitution operators; independent crypto/hpke sealing",
        "level_text": "For generated valid tuples: every (thorough) or 80+ sampled (quick) single-bit flips of the outer ClientHello body plus 25 substitution/truncation operators; oracle 'never accepted, fall-back byte-exact'. Exhaustive per hello in the thorough tier, sampled over hellos.",
        "level_note": "Trusts crypto/hpke as the reference AEAD/KEM and the harness AAD construction from raw bytes; panics are left to C08.",
        "assumptions": ["crypto/hpke implements RFC 9180", "header (record/handshake) bits are outside the AAD: tolerant class"],
    },
    "C04": {
        "stages": [rapid_stage("C04", 1500, 15000)],
        "design_ref": "DESIGN.md 4 C04",
        "technique": "property-based testing (rapid): structured fault injection into authentic ECH hellos, alert/close oracle on a logging transport",
        "level_text": "Randomised single- and multi-fault injection (23 fault kinds, positions drawn uniformly) into generated authentic hellos; oracle: error class, nothing forwarded, exactly one matching fatal alert then Close. Exploration, not enumeration of all positions.",
        "level_note": "Expected alert classes are the harness's reading of draft-ietf-tls-esni 5.1/7/7.1 as listed in the property; multi-fault cases accept any injected fault's class.",
        "assumptions": ["malformed ech_outer_extensions encodings map to decode_error", "empty reference lists and trailing bytes are not generated (unspecified)"],
    },
    "C05": {
        "stages": [rapid_stage("C05", 1500, 30000)],
        "design_ref": "DESIGN.md 4 C05",
        "technique": "property-based testing (rapid): round trip against the input bytes, differential against crypto/tls ClientHelloInfo",
        "level_text": "Randomised exploration of valid ClientHellos without acceptable ECH (7 kinds x 3 key-set shapes x sizes x following record streams); oracle compares the forwarded bytes with the bytes sent (not with the library's marshaller) and ServerName/ALPN with two independent decoders.",
        "level_note": "crypto/tls refuses some syntactically valid hellos (counted as tls_oracle_refused); those only get the harness-decoder oracle.",
        "assumptions": ["hellos with duplicate extension types, several SNI names or trailing bytes are not generated (RFC-invalid)"],
    },
    "C06": {
        "stages": [rapid_stage("C06", 1500, 10000)],
        "design_ref": "DESIGN.md 4 C06",
        "technique": "model-based (stateful) property testing with rapid: generated client/backend record histories vs. a reference state machine written from the property",
        "level_text": "Randomised histories (up to 14 operations + drain) of client sends, backend queue/flush (with split writes) and backend reads; the reference machine predicts for every record read whether it is a retry (and its outcome) or forwarded unchanged.",
        "level_note": "Histories with two HelloRetryRequests, an HRR after a ServerHello or after backend application data are excluded (undefined by TLS).",
        "assumptions": ["crypto/hpke sender sequence numbers as reference for 'next sequence number'"],
    },
    "C07": {
        "stages": [rapid_stage("C07", 500, 6000, qshards=4)],
        "design_ref": "DESIGN.md 4 C07",
        "technique": "property-based testing (rapid): generated chunk/split/cut schedules on a scripted transport, prefix/lossless invariants over the I/O history",
        "level_text": "Randomised exploration of fragmentation schedules, buffer sizes, write splits, record lengths (boundaries weighted) and transport cuts; invariants checked after every operation.",
        "level_note": "Single goroutine drives both directions, so the operation order is the history; cut offsets are sampled, not enumerated, in the quick tier.",
        "assumptions": ["zero-length records are generated only for application data (RFC 8446 5.1 forbids them for other types)"],
    },
    "C08": {
        "stages": [
            rapid_stage("C08", 1500, 30000),
            {"name": "corpus", "run": "^FuzzConnStream$", "shards": {"quick": 1, "thorough": 1}, "timeout": {"quick": 300, "thorough": 600}},
            {"name": "retained", "run": "^TestC08Retained$", "checks": {"quick": 15, "thorough": 100}, "shards": {"quick": 1, "thorough": 4}, "timeout": {"quick": 300, "thorough": 1200}},
            {"name": "stall", "run": "^TestC08Stall$", "checks": {"quick": 6, "thorough": 40}, "shards": {"quick": 2, "thorough": 16}, "timeout": {"quick": 300, "thorough": 2400}},
            {"name": "fuzz", "gofuzz": "^FuzzConnStream$", "fuzztime": {"thorough": "240s", "quick": "20s"}, "tiers": ["thorough"], "timeout": {"thorough": 900}},
        ],
        "crash_is_violation": True,
        "design_ref": "DESIGN.md 4 C08",
        "technique": "structure-aware property-based fuzzing (rapid) incl. re-sealed mutated inner hellos, native coverage-guided go fuzzing (thorough), synctest stall sweep over every byte offset",
        "level_text": "Grammar-based mutation of outer and (re-sealed) inner hellos and of both record streams with a no-panic / progress / allocation-bound oracle; the saved fuzz corpus is replayed in the quick tier and a coverage-guided campaign runs in the thorough tier; the stall sweep enumerates every stall offset of each generated first record in virtual time.",
        "level_note": "Allocation is measured with runtime.MemStats around each call (single goroutine); retained memory by heap-after-GC at the midpoint and end of long streams. Native fuzzing cannot be pinned to VERIF_SEED.",
        "assumptions": ["a caller stops writing after Write returned an error", "1 MiB per call = 64 maximum records is the 'small multiple'"],
    },
    "C10": {
        "stages": [rapid_stage("C10", 3000, 60000, qshards=4)],
        "design_ref": "DESIGN.md 4 C10",
        "technique": "property-based schedule exploration (rapid) inside testing/synctest bubbles: virtual time, synctest.Wait forces the watcher goroutine to run in every case",
        "level_text": "Randomised schedule search over {delivery plan, context kind, cancellation slot, GOMAXPROCS}; each case is deterministic in time and guarantees that the watcher has been scheduled before the transport log is inspected. A racy implementation survives N cancel-after-return cases with probability about 2^-N.",
        "level_note": "Goroutine order at equal virtual instants is chosen by the Go scheduler: sampled, not enumerated.",
        "assumptions": ["a context that ends exactly when the last hello byte arrives may make NewConn fail or succeed (tie)"],
    },
    "C09": {
        "stages": [rapid_stage("C09", 800, 10000)],
        "design_ref": "DESIGN.md 4 C09",
        "technique": "property-based testing (rapid): metamorphic relation over key lists (outcome with list == outcome with [T] or [])",
        "level_text": "Randomised exploration of key-list shapes (same-id collisions, positions of the target key, absence, permutations) for first and retried hellos; metamorphic oracle needs no model of ECH.",
        "level_note": "Outcome equality covers error class, acceptance, forwarded records, reported SNI/ALPN and alert bytes.",
        "assumptions": ["crypto/hpke as sealing reference"],
    },
    "C03": {
        "stages": [rapid_stage("C03", 1500, 20000)],
        "design_ref": "DESIGN.md 4 C03",
        "technique": "property-based testing (rapid): generated ECH hello layouts vs. independent encoder oracle",
        "level_text": "Randomised exploration of the (inner list x outer list x compressed run x placement x padding x session id x size x suite) space with a byte-exact expected-bytes oracle computed by an independent encoder and crypto/hpke; no counterexample in N generated layouts is the claim, not absence.",
        "level_note": "Trusts crypto/hpke, the harness ClientHello encoder (cross-checked against crypto/tls in C01/C05) and the draft reading 'compressed extensions form one contiguous run'.",
        "assumptions": ["crypto/hpke (Go 1.26) implements RFC 9180", "the harness encoder follows RFC 8446 4.1.2 and draft-ietf-tls-esni 5.1"],
    },
}

META = {
    "setup_cmd": "./setup.sh",
    "hooks": {
        "guard": "verif",
        "enable": "go test -tags verif (the driver always builds the harness with -tags verif against /repo's working tree)",
        "baseline_off_cmd": "cd /repo && for m in . ./publish ./quic; do (cd $m && GOFLAGS=-mod=mod go test -vet=off -count=1 -timeout 25m ./...) || exit 1; done",
        "source_commits": [],
        "add_only": True,
    },
    "notes": "All checks: ./check <id> quick|thorough [VERIF_SEED=n]. Exit 0 held / 1 VIOLATION / 2 inconclusive. known_findings.json lists recorded and fixed defects.",
}
