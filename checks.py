# Per-property configuration of the ./check driver.
# stage: name, run (go test -run regexp), checks{tier: rapid cases per shard}, shards{tier}, timeout{tier}

def rapid_stage(prop, quick, thorough, qshards=2, tshards=16, qto=300, tto=3000, **kw):
    d = {"name": "rapid", "run": "^Test%s$" % prop, "checks": {"quick": quick, "thorough": thorough},
         "shards": {"quick": qshards, "thorough": tshards}, "timeout": {"quick": qto, "thorough": tto}}
    d.update(kw)
    return d

CHECKS = {
    "C03": {
        "stages": [rapid_stage("C03", 1500, 20000)],
        "design_ref": "DESIGN.md 4 C03",
        "technique": "property-based testing (rapid): generated ECH hello layouts vs. independent encoder oracle",
        "level_text": "Randomised exploration of the (inner list x outer list x compressed run x placement x padding x session id x size x suite) space with a byte-exact expected-bytes oracle computed by an independent encoder and crypto/hpke; no counterexample in N generated layouts is the claim, not absence.",
        "level_note": "Trusts crypto/hpke, the harness ClientHello encoder (cross-checked against crypto/tls in C01/C05) and the draft reading 'compressed extensions form one contiguous run'.",
        "assumptions": ["crypto/hpke (Go 1.26) implements RFC 9180", "the harness encoder follows RFC 8446 4.1.2 and draft-ietf-tls-esni 5.1"],
    },
}

META = {
    "setup_cmd": "./setup.sh",
    "hooks": {
        "guard": "verif",
        "enable": "go test -tags verif (the driver always builds the harness with -tags verif against /repo's working tree)",
        "baseline_off_cmd": "cd /repo && for m in . ./publish ./quic; do (cd $m && GOFLAGS=-mod=mod go test -vet=off -count=1 -timeout 25m ./...) || exit 1; done",
        "source_commits": [],
        "add_only": True,
    },
    "notes": "All checks: ./check <id> quick|thorough [VERIF_SEED=n]. Exit 0 held / 1 VIOLATION / 2 inconclusive. known_findings.json lists recorded and fixed defects.",
}
