#!/bin/bash
# reverttest.sh: for every "fix:" commit, revert it in a scratch worktree and confirm that the check
# of the property it was found by reports the defect again. Saves the shrunk replay under regress/.
export GOFLAGS=-mod=mod GOPROXY=off
while read sha prop name; do
  [ -z "$sha" ] && continue
  w=/tmp/rv-$sha
  git -C /repo worktree remove --force $w >/dev/null 2>&1
  git -C /repo worktree add --detach $w >/dev/null 2>&1
  if ! (cd $w && git revert --no-commit $sha >/dev/null 2>&1); then
    echo "$sha $prop $name: revert conflicts (skipped)"; git -C /repo worktree remove --force $w; continue
  fi
  if ! (cd $w && go build ./... >/dev/null 2>&1); then echo "$sha $prop $name: reverted tree does not build"; git -C /repo worktree remove --force $w; continue; fi
  rm -rf /verif/replays
  out=$(VERIF_REPO=$w /verif/check $prop quick 2>&1); rc=$?
  msg=$(echo "$out" | grep -B1 "^VIOLATION" | head -1 | cut -c1-160)
  echo "$sha $prop $name: rc=$rc $msg"
  if [ $rc -eq 1 ]; then
    rp=$(echo "$out" | grep "^VIOLATION" | sed 's/.*replay=//')
    mkdir -p /verif/regress/$prop
    case "$rp" in *.json) cp "$rp" /verif/regress/$prop/$name.json;; *) cp "$rp" /verif/regress/$prop/$name.log 2>/dev/null;; esac
  fi
  git -C /repo worktree remove --force $w
done <<LIST
8d13128 C04 newconn-sends-no-alert
57bfc0f C04 padding-not-checked
c50e236 C04 empty-inner-passed-through
6aacff0 C05 no-extension-block-rejected
de7dcdc C09 same-config-id-keys-reject
0468456 C07 protected-record-over-16384-refused
e6cb148 C07 zero-length-record-panics
32c786a C06 retry-alert-lost-after-partial-backend-write
836d1b9 C08 two-ech-extensions-panic
f0c5646 C10 late-setdeadline-after-return
392c147 C13 root-question-two-zero-bytes
d7f42b3 C12 label-then-pointer-loop-hang
af3b4f2 C15 targets-appends-into-result-alpn
0b6a95a C14 constructed-query-name-not-validated
a3aa999 C16 ttl0-treated-as-unset
05870df C16 cname-only-answer-cached-300s
26cc7b8 C20 pagination-stops-after-first-page
0b343df C20 duplicate-target-patched-twice
c365989 C06 inspection-continues-after-passthrough
1f3f088 C02 bytes-after-extensions-accepted
LIST
rm -rf /verif/replays
