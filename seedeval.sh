#!/bin/bash
# seedeval.sh <srcdir-with-seed/> <seed-id> <prop> [more props...]
# Confirms a seeded change (patch applies, builds, existing tests pass, demo fails with / passes without),
# runs the quick checks of the listed properties against it, and stores it under /verif/seeded/<seed-id>/.
src=$1; id=$2; shift 2
export GOFLAGS=-mod=mod GOPROXY=off
w=/tmp/ev-$id
git -C /repo worktree remove --force $w >/dev/null 2>&1
git -C /repo worktree add --detach $w >/dev/null 2>&1 || { echo "worktree failed"; exit 2; }
demo=$(ls $src/seed/*_test.go | head -1)
pkgdir=$(head -3 $demo | grep -oE "(publish|dns|quic|internal/hpke|root|repository root|package ech)" | head -1)
case "$pkgdir" in publish) d=publish;; dns) d=dns;; quic) d=quic;; internal/hpke) d=internal/hpke;; *) d=.;; esac
[ -n "$DEMO_DIR" ] && d=$DEMO_DIR
res="{}"
cp $demo $w/$d/seed_demo_test.go
# without the patch: demo must pass
( cd $w/$d && go test -vet=off -count=1 -run 'TestSeedDemo$' . ) > /tmp/ev-$id.nopatch.log 2>&1; rc_nopatch=$?
( cd $w && git apply $src/seed/patch.diff ) || { echo "PATCH DOES NOT APPLY"; git -C /repo worktree remove --force $w; exit 2; }
( cd $w && go build ./... ) > /tmp/ev-$id.build.log 2>&1; rc_build=$?
( cd $w/$d && go test -vet=off -count=1 -run 'TestSeedDemo$' . ) > /tmp/ev-$id.patch.log 2>&1; rc_patch=$?
rm -f $w/$d/seed_demo_test.go
( cd $w && go test -vet=off -count=1 ./ ./dns/ ./internal/... && cd publish && go test -vet=off -count=1 ./ ) > /tmp/ev-$id.suite.log 2>&1; rc_suite=$?
echo "seed $id: demo without patch rc=$rc_nopatch (want 0); build rc=$rc_build; demo with patch rc=$rc_patch (want !=0); existing suite with patch rc=$rc_suite (want 0)"
caught=""
missed=""
for p in "$@"; do
  out=$(VERIF_REPO=$w VERIF_SEED=${VERIF_SEED:-1} /verif/check $p ${TIER:-quick} 2>&1); rc=$?
  line=$(echo "$out" | grep -E "^VIOLATION|INCONCLUSIVE" | head -1)
  msg=$(echo "$out" | grep -B1 "^VIOLATION" | head -1 | cut -c1-220)
  echo "  $p rc=$rc $line"; [ -n "$msg" ] && echo "     $msg"
  if [ $rc -eq 1 ]; then caught="$caught $p"; else missed="$missed $p"; fi
done
mkdir -p /verif/seeded/$id
cp $src/seed/patch.diff /verif/seeded/$id/patch.diff
cp $demo /verif/seeded/$id/seed_demo_test.go.txt
python3 - "$src/seed/meta.json" "$id" "$rc_nopatch" "$rc_patch" "$rc_suite" "$caught" "$missed" "$d" <<'PY'
import json,sys
src,id,a,b,c,caught,missed,d=sys.argv[1:9]
try: m=json.load(open(src))
except Exception as e: m={"error":str(e)}
m.update({"seed_id":id,"demo_package_dir":d,"confirmed":{"demo_passes_without_patch":a=="0","demo_fails_with_patch":b!="0","existing_suite_passes_with_patch":c=="0"},
 "ran":["git apply patch.diff in a scratch worktree of /repo HEAD","go build ./...","go test -run TestSeedDemo with and without the patch","go test ./ ./dns/ ./internal/... and publish/ with the patch","./check <prop> quick with VERIF_REPO=<scratch worktree>"],
 "caught_by":caught.split(),"not_caught_by":missed.split()})
json.dump(m,open(f"/verif/seeded/{id}/meta.json","w"),indent=1)
PY
git -C /repo worktree remove --force $w
rm -rf /verif/replays
