#!/bin/bash
# seedbatch.sh <suffix>: evaluates every /tmp/seed-Cxx that has seed/patch.diff as seed Cxx-<suffix> against its own property's check.
sfx=$1
for d in /tmp/seed-C*; do
  [ -f $d/seed/patch.diff ] || continue
  p=$(basename $d | sed 's/seed-//')
  demo=$(find $d -name seed_demo_test.go -not -path "*/seed/*" | head -1)
  dd=$(dirname "${demo:-$d/x}" | sed "s#^$d/\?##"); [ -z "$dd" ] && dd=.
  DEMO_DIR=$dd /verif/seedeval.sh $d $p-$sfx $p 2>&1 | cut -c1-260
done
