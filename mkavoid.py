#!/usr/bin/env python3
# regenerates /tmp/seedprops/AVOID-Cxx.txt (what seeding sub-agents are told not to repeat) from the stored seeds
import json,glob,os,collections
out=collections.defaultdict(list)
for d in sorted(glob.glob('/verif/seeded/*/meta.json'))+sorted(glob.glob('/verif/seeded-rejected/*/meta.json')):
    m=json.load(open(d)); p=os.path.basename(os.path.dirname(d)).split('-')[0]
    out[p].append((m.get('summary') or '')[:420].replace('\n',' '))
os.makedirs('/tmp/seedprops',exist_ok=True)
for p,l in out.items():
    with open(f'/tmp/seedprops/AVOID-{p}.txt','w') as f:
        f.write("Changes other people already made for this property (yours must be a DIFFERENT idea, at a different site or mechanism, and should exploit a different kind of input/sequence):\n")
        for s in l: f.write("- "+s+"\n")
    print(p,len(l))
