#!/bin/bash
# seedregress.sh: re-applies every stored seeded change to a scratch worktree of /repo HEAD and confirms
# (VERIF_SEED selects the seed; log in /tmp/seedregress-<seed>.log) that the quick tier of the property it breaks (or the check named in meta.json caught_by) reports it.
export GOFLAGS=-mod=mod GOPROXY=off
D=$(cd "$(dirname "$0")" && pwd)   # works from a snapshot too (vp run -- env VERIF_SEED=2 ./seedregress.sh)
seed=${VERIF_SEED:-1}
out=/tmp/seedregress-$seed.log; : > $out
for d in $D/seeded/*/; do
  id=$(basename $d); prop=${id%%-*}
  checks=$(python3 -c "import json;m=json.load(open('$d/meta.json'));print(' '.join(m.get('caught_by') or ['$prop']))")
  w=/tmp/sr$seed-$id
  git -C /repo worktree remove --force $w >/dev/null 2>&1
  git -C /repo worktree add --detach $w >/dev/null 2>&1
  if ! (cd $w && git apply $d/patch.diff 2>/dev/null); then
    if ! (cd $w && git apply --3way $d/patch.diff >/dev/null 2>&1); then echo "$id: patch no longer applies (skipped)" >> $out; git -C /repo worktree remove --force $w; continue; fi
  fi
  if ! (cd $w && go build ./... >/dev/null 2>&1); then echo "$id: does not build (skipped)" >> $out; git -C /repo worktree remove --force $w; continue; fi
  res="MISSED"
  for p in $checks; do
    VERIF_REPO=$w VERIF_SEED=$seed $D/check $p quick >/tmp/sr$seed-$id.out 2>&1; rc=$?
    if [ $rc -eq 1 ]; then res="caught by $p"; break; fi
    [ $rc -eq 2 ] && res="INCONCLUSIVE ($p)"
  done
  echo "$id: $res" >> $out
  git -C /repo worktree remove --force $w
done
rm -rf $D/replays
echo "done: $(grep -c caught $out) caught, $(grep -c MISSED $out) missed, $(grep -c skipped $out) skipped, $(grep -c INCONCLUSIVE $out) inconclusive" >> $out
