#!/bin/bash
# stress.sh <seed>: runs all quick checks concurrently (oversubscribed machine) and reports non-zero exits.
seed=${1:-11}
mkdir -p /tmp/stress
for p in $(python3 -c "import json;print(' '.join(c['property_id'] for c in json.load(open('/verif/MANIFEST.json'))['checks']))"); do
  ( VERIF_SEED=$seed /verif/check $p quick > /tmp/stress/$p.out 2>&1; echo "$p rc=$?" >> /tmp/stress/summary.$seed ) &
done
wait
sort /tmp/stress/summary.$seed | grep -v "rc=0" ; echo "stress seed $seed done: $(grep -c 'rc=0' /tmp/stress/summary.$seed) ok"
