#!/bin/sh
# Offline setup: pre-build the harness test binaries from files on disk only.
set -e
cd "$(dirname "$0")/harness"
export GOFLAGS=-mod=mod GOPROXY=off GOSUMDB=off GOTOOLCHAIN=local
mkdir -p ../.build
go1.26.8 vet -tags verif ./ev/ ./hello/ ./wire/ >/dev/null 2>&1 || true
go1.26.8 test -c -tags verif -o ../.build/setup-props.test ./props/
rm -f ../.build/setup-props.test
echo setup ok
