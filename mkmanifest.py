#!/usr/bin/env python3
"""Regenerates MANIFEST.json from checks.py (single source of truth)."""
import json, os, sys
sys.path.insert(0, os.path.dirname(os.path.abspath(__file__)))
from checks import CHECKS, META

props = [json.loads(l)["id"] for l in open("properties.jsonl")]
checks, na = [], []
for p in props:
    if p in CHECKS and not CHECKS[p].get("disabled"):
        c = CHECKS[p]
        checks.append({
            "property_id": p,
            "quick_cmd": "./check %s quick" % p,
            "thorough_cmd": "./check %s thorough" % p,
            "evidence_file": "evidence/%s.json" % p,
            "replay_cmd_template": "./check %s --replay {path}" % p,
            "engine": "harness",
            "level_claimed": {"category": c.get("level", "exploration"), "text": c["level_text"], "design_ref": c.get("design_ref", "")},
            "level_note": c["level_note"],
            "technique": c["technique"],
        })
    else:
        na.append({"property_id": p, "reason": (CHECKS.get(p) or {}).get("na_reason", "check not built yet in this revision (work in progress); no claim is made")})
doc = {
    "version": 1,
    "setup_cmd": META["setup_cmd"],
    "hooks": META["hooks"],
    "engines": [{"name": "harness", "path": "harness/", "serves_properties": [c["property_id"] for c in checks],
                 "kind_free_text": "Go module (go1.26.8): pgregory.net/rapid v1.3.0 properties and state machines, native go fuzz targets, testing/synctest for virtual time; driver ./check (python3) shards, merges evidence, maps exit codes"}],
    "checks": checks,
    "notes": META["notes"],
    "not_applicable": na,
}
json.dump(doc, open("MANIFEST.json", "w"), indent=1)
print("MANIFEST.json: %d checks, %d not_applicable" % (len(checks), len(na)))
