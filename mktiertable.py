#!/usr/bin/env python3
# Regenerates the table of DESIGN.md section 10.5 from checks.py.
import importlib.util
spec=importlib.util.spec_from_file_location('checks','/verif/checks.py'); m=importlib.util.module_from_spec(spec); spec.loader.exec_module(m)
rows=["| Property | Stage | quick (shards x cases) | thorough (shards x cases) |","|---|---|---|---|"]
for p in sorted(m.CHECKS):
    for st in m.CHECKS[p]['stages']:
        run=st.get('run') or st.get('gofuzz')
        def cell(t):
            if st.get('gofuzz'):
                return '-' if t not in st.get('tiers',[]) else "native fuzzing "+st['fuzztime'][t]
            c=st.get('checks',{}).get(t)
            return 'saved inputs' if c is None else f"{st['shards'][t]} x {c}"
        rows.append(f"| {p} | {st['name']} ({run}) | {cell('quick')} | {cell('thorough')} |")
s=open('/verif/DESIGN.md').read()
a=s.index("| Property | Stage | quick"); b=s.index("### 10.6")
s=s[:a]+"\n".join(rows)+"\n\n"+s[b:]
open('/verif/DESIGN.md','w').write(s)
print(len(rows)-2,"stages")
