#!/bin/sh
# runall.sh <tier> [seed]: runs every claimed check once; prints one line per property.
tier=${1:-quick}; seed=${2:-1}
for p in $(python3 -c "import json;print(' '.join(c['property_id'] for c in json.load(open('MANIFEST.json'))['checks']))"); do
  out=$(VERIF_SEED=$seed $(dirname $0)/check $p $tier 2>&1); rc=$?
  echo "$p rc=$rc $(echo "$out" | grep -E "evaluations=" | tail -1)"
  if [ $rc -ne 0 ]; then echo "$out" | grep -E "VIOLATION|INCONCLUSIVE|WARNING" | head -5; fi
  echo "$out" | grep -E "^WARNING" | head -2
done
